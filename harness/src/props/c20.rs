//! C20 — HTML rendering never emits user-controlled markup.
//!
//! Every (template × payload) combination is rendered exactly as the web front end does
//! (`HtmlFormatter` for markup, `HtmlWriter` + codespan for diagnostics) and the produced HTML is
//! scanned by a strict tag/entity scanner.

use crate::common::*;
use codespan_reporting::term::{self, Config};
use numbat::buffered_writer::BufferedWriter;
use numbat::diagnostic::{ErrorDiagnostic, ResolverDiagnostic};
use numbat::html_formatter::{HtmlFormatter, HtmlWriter};
use numbat::markup::{Formatter, Markup};
use numbat::pretty_print::PrettyPrint;
use numbat::resolver::CodeSource;
use numbat::{Context, InterpreterSettings, NumbatError};
use serde_json::{Value as J, json};
use std::sync::{Arc, Mutex};

fn fmt(m: &Markup) -> String {
    HtmlFormatter {}.format(m, false).to_string()
}

fn emit(ctx: &Context, error: &dyn ErrorDiagnostic) -> String {
    let mut writer: Box<dyn BufferedWriter> = Box::new(HtmlWriter::new());
    let config = Config::default();
    for d in error.diagnostics() {
        term::emit(&mut writer, &config, &ctx.resolver().files, &d).unwrap();
    }
    writer.to_string()
}

/// What `numbat-wasm` does for one input in HTML mode. Returns (html, is_error).
pub fn render_html(ctx: &mut Context, code: &str) -> (String, bool) {
    let mut output = String::new();
    let to_be_printed: Arc<Mutex<Vec<Markup>>> = Arc::new(Mutex::new(vec![]));
    let c = to_be_printed.clone();
    let mut settings = InterpreterSettings {
        print_fn: Box::new(move |s: &Markup| {
            c.lock().unwrap().push(s.clone());
        }),
    };
    let nl = fmt(&numbat::markup::nl());
    match ctx
        .interpret_with_settings(&mut settings, code, CodeSource::Text)
        .map_err(|b| *b)
    {
        Ok((statements, result)) => {
            output.push_str(&nl);
            for s in &statements {
                output.push_str(&fmt(&s.pretty_print()));
                output.push_str(&nl);
            }
            output.push_str(&nl);
            for content in to_be_printed.lock().unwrap().iter() {
                output.push_str(&fmt(content));
                output.push_str(&nl);
            }
            let registry = ctx.dimension_registry().clone();
            let m = result.to_markup(statements.last(), &registry, true, true, &numbat::FormatOptions::default());
            output.push_str(&fmt(&m));
            (output, false)
        }
        Err(NumbatError::ResolverError(e)) => (emit(ctx, &e), true),
        Err(NumbatError::NameResolutionError(e)) => (emit(ctx, &e), true),
        Err(NumbatError::TypeCheckError(e)) => (emit(ctx, &e), true),
        Err(NumbatError::RuntimeError(e)) => (
            emit(ctx, &ResolverDiagnostic { resolver: ctx.resolver(), error: &e }),
            true,
        ),
    }
}

/// Strict scanner: every `<` must start one of the renderer's own tags, spans must balance, every
/// `&` must start a character reference.
pub fn scan(html: &str) -> Result<(), String> {
    let b = html.as_bytes();
    let mut i = 0;
    let mut depth = 0i32;
    while i < b.len() {
        match b[i] {
            b'<' => {
                let rest = &html[i..];
                if rest.starts_with("</span>") {
                    depth -= 1;
                    if depth < 0 {
                        return Err(format!("unbalanced </span> at byte {i}"));
                    }
                    i += 7;
                } else if let Some(r) = rest.strip_prefix("<span class=\"numbat-") {
                    let end = r.find("\">").ok_or_else(|| format!("unterminated span tag at byte {i}"))?;
                    let class = &r[..end];
                    if class.is_empty() || !class.bytes().all(|c| c.is_ascii_lowercase() || c == b'-') {
                        return Err(format!("span with unexpected class `{class}` at byte {i}"));
                    }
                    depth += 1;
                    i += "<span class=\"numbat-".len() + end + 2;
                } else {
                    let snippet: String = rest.chars().take(40).collect();
                    return Err(format!("raw `<` that is not one of the renderer's tags at byte {i}: `{snippet}`"));
                }
            }
            b'&' => {
                let rest = &html[i..];
                let end = rest.find(';').filter(|e| *e <= 10);
                let ok = match end {
                    Some(e) => {
                        let name = &rest[1..e];
                        matches!(name, "amp" | "lt" | "gt" | "quot" | "apos")
                            || (name.starts_with("#x") && name[2..].bytes().all(|c| c.is_ascii_hexdigit()) && name.len() > 2)
                            || (name.starts_with('#') && name[1..].bytes().all(|c| c.is_ascii_digit()) && name.len() > 1)
                    }
                    None => false,
                };
                if !ok {
                    let snippet: String = rest.chars().take(20).collect();
                    return Err(format!("raw `&` that does not start a character reference at byte {i}: `{snippet}`"));
                }
                i += end.unwrap() + 1;
            }
            _ => i += 1,
        }
    }
    if depth != 0 {
        return Err(format!("{depth} unclosed span(s)"));
    }
    Ok(())
}

/// The unescaped form of the HTML's text content (tags removed, entities decoded)
pub fn text_of(html: &str) -> String {
    let mut out = String::new();
    let mut rest = html;
    while !rest.is_empty() {
        if rest.starts_with('<') {
            match rest.find('>') {
                Some(e) => rest = &rest[e + 1..],
                None => break,
            }
        } else if rest.starts_with('&') {
            let e = rest.find(';').unwrap_or(0);
            let name = &rest[1..e.max(1)];
            let ch = match name {
                "amp" => "&",
                "lt" => "<",
                "gt" => ">",
                "quot" => "\"",
                "apos" | "#x27" | "#39" => "'",
                _ => "?",
            };
            out.push_str(ch);
            rest = &rest[e + 1..];
        } else {
            let c = rest.chars().next().unwrap();
            out.push(c);
            rest = &rest[c.len_utf8()..];
        }
    }
    out
}

pub const PAYLOADS: [&str; 11] = [
    // an entity next to real markup ("already escaped" must not be guessed from the content)
    "fish &amp; chips <img src=x onerror=alert(1)>",
    "&lt;b&gt; is written <b>",
    "<b>",
    "<img src=x onerror=alert(1)>",
    "&amp;",
    "\\\"'",
    "</span>",
    "<!--",
    "&#60;",
    "<script>alert(1)</script>",
    "a&b<c>d",
];

/// templates: `P` is replaced by the payload (as string content), `I` by an identifier-safe form
pub fn templates() -> Vec<(&'static str, &'static str)> {
    vec![
        // values and prints
        ("string result", "\"P\""),
        ("print string", "print(\"P\")"),
        ("print interpolation", "print(\"x{1+1}P\")"),
        ("list of strings", "[\"P\", \"a\"]"),
        ("struct with string field", "struct Sx { s: String }\nSx { s: \"P\" }"),
        ("let string echo", "let sv = \"P\""),
        ("function returning string", "fn fs(x: String) -> String = \"P{x}\"\nfs(\"P\")"),
        ("type of string", "type(\"P\")"),
        ("decorators", "@name(\"P\")\n@url(\"P\")\n@description(\"P\")\nlet dv = 1"),
        ("unit decorators", "@name(\"P\")\n@url(\"P\")\nunit uu_x"),
        ("function reference", "let fr = sin\nfr"),
        ("comment", "1 + 1 # P"),
        // run-time errors quoting user text
        ("user error", "error(\"P\")"),
        ("assert_eq strings", "assert_eq(\"P\", \"other\")"),
        ("assert_eq lists of strings", "assert_eq([\"P\"], [\"q\"])"),
        ("unknown timezone", "tz(\"P\")(now())"),
        ("date parse error", "datetime(\"P\")"),
        ("format specifier error", "\"{1:P}\""),
        ("chemical element", "element(\"P\")"),
        ("runtime error after string", "let sx = \"P\"\n1/0"),
        // type / name / parse errors whose source line contains the payload
        ("type error with string on the line", "1 + \"P\""),
        ("type error in call", "sin(\"P\")"),
        ("unknown identifier on a line with payload", "unknown_name + \"P\""),
        ("unknown identifier, payload in comment", "unknown_name # P"),
        ("name clash", "let meter = \"P\""),
        ("parse error with payload in string", "let = \"P\""),
        ("parse error, raw payload", "1 + P"),
        ("raw payload only", "P"),
        ("unterminated string", "\"P"),
        ("unknown module", "use foo::bar # P"),
        ("wrong arity", "sin(1, \"P\")"),
        ("struct field error", "struct Sy { s: String }\nSy { t: \"P\" }"),
        ("incompatible dimensions", "1 m + 1 s # P"),
        ("identifier text", "let I = 1\nI + unknown_name"),
        ("unknown identifier payload-like", "I"),
        ("dimension name", "dimension I\nunit uu_y: I\n1 uu_y + 1"),
    ]
}

fn ident_of(p: &str) -> String {
    // identifier built from the payload's letters, keeps the test meaningful for names
    let s: String = p.chars().filter(|c| c.is_ascii_alphanumeric()).collect();
    format!("id_{s}")
}

pub fn check(rep: &mut Report) {
    let base = prelude_ctx();
    let ts = templates();
    let mut cases: Vec<(String, String, String)> = vec![]; // (template name, payload, code)
    // thorough tier: payloads that imitate the renderer's own markup or break out of an attribute
    let extra: [&str; 6] = [
        "<span class=\\\"numbat-value\\\">x</span>",
        "\\\"><svg onload=alert(1)>",
        "<a href=\\\"javascript:x\\\">",
        "<>",
        "<span>",
        "</span><span class=numbat-string>",
    ];
    let mut payloads: Vec<&str> = PAYLOADS.to_vec();
    if rep.tier == Tier::Thorough {
        payloads.extend(extra);
    }
    for (name, t) in &ts {
        for p in &payloads {
            let code = t.replace('P', p).replace('I', &ident_of(p));
            cases.push((name.to_string(), p.to_string(), code));
        }
    }
    // info / list output for user-defined entities
    let n = cases.len();
    let outs: Vec<Result<(String, bool, bool), String>> = par_map(
        n,
        || (),
        |_, i| {
            let mut ctx = base.clone();
            let (html, is_err) = match guarded(|| render_html(&mut ctx, &cases[i].2)) {
                Ok(x) => x,
                Err(p) => return Err(format!("PANIC {} at {}", p.message, p.site())),
            };
            let mut all = vec![html];
            // `info` on what the input defined, and the environment listing
            for kw in ["dv", "uu_x", "sv", &ident_of(&cases[i].1)] {
                if let Ok(m) = guarded(|| ctx.print_info_for_keyword(kw)) {
                    all.push(fmt(&m));
                }
            }
            if let Ok(m) = guarded(|| ctx.print_environment()) {
                all.push(fmt(&m));
            }
            let payload_reflected = all.iter().any(|h| {
                let t = text_of(h);
                t.contains(&cases[i].1) || cases[i].1.chars().filter(|c| "<>&".contains(*c)).any(|c| t.contains(c))
            });
            for h in &all {
                scan(h).map_err(|e| format!("{e}\n--- html ---\n{}", h.chars().take(600).collect::<String>()))?;
                // a payload that contains `<` must never appear verbatim (the tag scanner alone would
                // accept user text that imitates the renderer's own <span class="numbat-…">)
                let raw = cases[i].1.replace("\\\"", "\"");
                // (`</span>` itself is also the renderer's own closing tag; the balance check covers it)
                if raw.contains('<') && raw != "</span>" && h.contains(&raw) {
                    return Err(format!("the payload `{raw}` appears verbatim in the HTML\n--- html ---\n{}", h.chars().take(600).collect::<String>()));
                }
            }
            Ok((all[0].clone(), is_err, payload_reflected))
        },
    );
    rep.states = n as u64;
    let (mut errs, mut oks, mut reflected) = (0u64, 0u64, 0u64);
    for (i, o) in outs.into_iter().enumerate() {
        rep.transitions += 1;
        rep.evaluations += 1;
        match o {
            Ok((html, is_err, refl)) => {
                rep.validated += 1;
                if is_err { errs += 1 } else { oks += 1 }
                if refl {
                    reflected += 1;
                    rep.nontrivial_case(&cases[i].2);
                }
                rep.outcome(&format!("{}{}", cases[i].0, is_err));
                if i % 41 == 1 {
                    rep.sample(json!({"template": cases[i].0, "input": cases[i].2, "html": html.chars().take(300).collect::<String>()}));
                }
            }
            Err(e) => {
                if e.starts_with("PANIC") {
                    let site = e.split(" at ").last().unwrap_or("").to_string();
                    rep.violation(format!("callsite:{site}"), format!("rendering `{}` panicked: {e}", cases[i].2), json!({"code": cases[i].2}));
                } else {
                    rep.violation(
                        format!("template:{}|payload:{}", cases[i].0, cases[i].1),
                        format!("[{}] input {:?}: {}", cases[i].0, cases[i].2, e.lines().next().unwrap_or("")),
                        json!({"code": cases[i].2, "template": cases[i].0, "payload": cases[i].1, "detail": e}),
                    );
                }
            }
        }
    }
    rep.set("templates", json!(ts.len()));
    rep.set("payloads", json!(PAYLOADS.len()));
    rep.set("rendered_as_result", json!(oks));
    rep.set("rendered_as_diagnostic", json!(errs));
    rep.set("outputs_reflecting_the_payload", json!(reflected));
    if errs == 0 || oks == 0 || reflected == 0 {
        rep.machinery_error("vacuous: no diagnostics, no results or no reflected payload");
    }
    rep.rule = "full product of input templates (results, prints, echoes, decorators, info/list output, every diagnostic family that quotes user text or source lines) x HTML payloads; each rendered as the web front end does and scanned: every `<` must start <span class=\"numbat-...\"> or </span>, spans balanced, every `&` must start a character reference, and a payload containing `<` never appears verbatim (thorough: + 6 payloads imitating the renderer's own markup); non-trivial = outputs whose text content contains payload metacharacters".into();
    rep.assumptions = vec![
        "the renderer's own markup consists only of <span class=\"numbat-*\"> elements".into(),
        "payload alphabet of 11 strings (thorough 17); templates enumerate the diagnostic kinds that embed user text".into(),
    ];
}

pub fn replay(case: &J) -> i32 {
    let mut ctx = prelude_ctx();
    let code = case["code"].as_str().unwrap_or("");
    let (html, is_err) = render_html(&mut ctx, code);
    println!("input: {code:?}\nis_error: {is_err}\n{html}");
    match scan(&html) {
        Ok(()) => {
            println!("no violation on this tree");
            0
        }
        Err(e) => {
            println!("VIOLATION reproduced: {e}");
            1
        }
    }
}
