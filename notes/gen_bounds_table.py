#!/usr/bin/env python3
"""Rewrites the table of DESIGN.md §8.1 (between the bounds-table markers) from the logs of the last
full runs (notes/all_quick.last.log, notes/all_thorough.last.log; written by notes/run_all.sh)."""
import re
def parse(path):
    d = {}
    for l in open(path):
        m = re.match(r'(C\d\d) (\w+) rc=(\d+) (\d+)s viol=(\d+) known=(\d+) :: .*?states=(\d+) transitions=(\d+) validated=(\d+)', l)
        if m:
            d[m.group(1)] = dict(rc=int(m.group(3)), secs=int(m.group(4)), viol=int(m.group(5)), known=int(m.group(6)), states=int(m.group(7)), trans=int(m.group(8)), valid=int(m.group(9)))
    return d
q = parse('/verif/notes/all_quick.last.log'); t = parse('/verif/notes/all_thorough.last.log')
def n(x):
    return f"{x:,}".replace(',', ' ')
rows = ["| id | quick: cases / evaluations / compared | wall | thorough: cases / evaluations / compared | wall | recorded findings hit |", "|----|---|---|---|---|---|"]
for i in range(1, 25):
    k = f"C{i:02d}"
    a, b = q.get(k), t.get(k)
    def cell(x):
        return f"{n(x['states'])} / {n(x['trans'])} / {n(x['valid'])}" if x else "—"
    rows.append(f"| {k} | {cell(a)} | {a['secs'] if a else '—'} s | {cell(b)} | {b['secs'] if b else '—'} s | {a['known'] if a else ''} |")
s = open('/verif/DESIGN.md').read()
a = s.index('<!-- bounds-table-begin -->') + len('<!-- bounds-table-begin -->')
b = s.index('<!-- bounds-table-end -->')
s = s[:a] + "\n" + "\n".join(rows) + "\n" + s[b:]
open('/verif/DESIGN.md', 'w').write(s)
print("ok", len(q), len(t))
