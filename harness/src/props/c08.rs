//! C08 — no input crashes or hangs the interpreter.
//!
//! (a) every token string up to length L over an alphabet with one spelling of every token kind,
//!     in a session without prelude and in a prelude session, with the diagnostic rendered;
//! (b) every (template × extreme) input, each in its own child process (stack overflows and
//!     runaway inputs cannot be caught in-process).

use crate::common::*;
use codespan_reporting::term::{self, Config};
use numbat::Context;
use numbat::buffered_writer::BufferedWriter;
use numbat::diagnostic::{ErrorDiagnostic, ResolverDiagnostic};
use numbat::html_formatter::HtmlWriter;
use numbat::NumbatError;
use serde_json::{Value as J, json};
use std::io::Read;
use std::process::{Command, Stdio};
use std::time::{Duration, Instant};

pub const TOKENS: [&str; 53] = [
    ";", "2", "1e30", "0", "x", "m", "\"s\"", "\"a{", "}b\"", "(", ")", "[", "]", "{", "}", ",", ".", ":", "+", "-", "*", "/", "^", "!", "=", "==", "<", "->", "|>", "&&", "||", "²", "let", "fn", "unit", "dimension", "struct", "use", "if", "then", "else", "where", "per", "to", "@", "?", "…", "\n", "true", "sin", "print", "assert_eq", "Length",
];

/// interpret + render the diagnostic, as every front end does; Err = panic
pub fn exercise(ctx: &mut Context, code: &str) -> Result<&'static str, PanicInfo> {
    guarded(|| {
        let mut settings = numbat::InterpreterSettings { print_fn: Box::new(|_| {}) };
        match ctx.interpret_with_settings(&mut settings, code, numbat::resolver::CodeSource::Text) {
            Ok((stmts, res)) => {
                // what a front end does with a success: echo + result markup
                for s in &stmts {
                    let _ = numbat::pretty_print::PrettyPrint::pretty_print(s).to_string();
                }
                let _ = res
                    .to_markup(stmts.last(), ctx.dimension_registry(), true, true, &numbat::FormatOptions::default())
                    .to_string();
                "ok"
            }
            Err(e) => {
                let mut writer: Box<dyn BufferedWriter> = Box::new(HtmlWriter::new());
                let config = Config::default();
                let diags = match &*e {
                    NumbatError::ResolverError(e) => e.diagnostics(),
                    NumbatError::NameResolutionError(e) => e.diagnostics(),
                    NumbatError::TypeCheckError(e) => e.diagnostics(),
                    NumbatError::RuntimeError(e) => ResolverDiagnostic { resolver: ctx.resolver(), error: e }.diagnostics(),
                };
                for d in diags {
                    term::emit(&mut writer, &config, &ctx.resolver().files, &d).expect("diagnostic rendering failed");
                }
                let _ = writer.to_string();
                "err"
            }
        }
    })
}

struct Agg {
    n: u64,
    ok: u64,
    err: u64,
    slow: Vec<(String, f64)>,
    panics: Vec<(String, String, String)>, // site, message, input
}

/// (e) one representative of every character class of the tokenizer, incl. every superscript and
/// subscript shape, Unicode operator spellings, quotes, escapes, control and zero-width characters
pub const CHARS: [&str; 76] = [
    "0", "1", "9", ".", "_", "e", "E", "x", "b", "o", "a", "m", "µ", "°", "′", "″", "%", "+", "-", "*", "/", "^", "!", "=", "<", ">", "&", "|", "(", ")", "[", "]", "{", "}", ",", ":", ";", "\"", "'", "\\", "#", "@", "?", "~", "$", "²", "³", "⁰", "¹", "⁴", "⁹", "⁻", "ⁱ", "₀", "₁", "·", "×", "÷", "−", "→", "➞", "≤", "≥", "≠", "⩵", "…", "π", "∞", " ", "\n", "\t", "\r", "\0", "é", "😀", "\u{feff}",
];

fn sweep(rep: &mut Report, len: usize, alphabet: &[&str], with_prelude: bool, tag: &str) {
    sweep_sep(rep, len, alphabet, with_prelude, tag, " ")
}

fn sweep_sep(rep: &mut Report, len: usize, alphabet: &[&str], with_prelude: bool, tag: &str, sep: &str) {
    let k = alphabet.len();
    let total = k.pow(len as u32);
    let chunk = 2000usize;
    let jobs = total.div_ceil(chunk);
    let base = if with_prelude { prelude_ctx() } else { Context::new_without_importer() };
    let aggs: Vec<Agg> = par_map(jobs, || (), |_, j| {
        let mut a = Agg { n: 0, ok: 0, err: 0, slow: vec![], panics: vec![] };
        let mut toks: Vec<&str> = vec![""; len];
        for idx in j * chunk..((j + 1) * chunk).min(total) {
            let mut r = idx;
            for p in (0..len).rev() {
                toks[p] = alphabet[r % k];
                r /= k;
            }
            let code = toks.join(sep);
            let mut ctx = base.clone();
            let t0 = Instant::now();
            // in-process and uninterruptible: an input that never returns is reported by the watchdog
            let r = watch::watched("C08", "code", &code, || exercise(&mut ctx, &code));
            let dt = t0.elapsed().as_secs_f64();
            a.n += 1;
            if dt > 2.0 {
                a.slow.push((code.clone(), dt));
            }
            match r {
                Ok("ok") => a.ok += 1,
                Ok(_) => a.err += 1,
                Err(p) => {
                    if a.panics.len() < 50 {
                        a.panics.push((p.site(), p.message.clone(), code));
                    }
                }
            }
        }
        a
    });
    let (mut n, mut ok, mut err) = (0, 0, 0);
    for a in aggs {
        n += a.n;
        ok += a.ok;
        err += a.err;
        for (site, msg, code) in a.panics {
            rep.violation(
                format!("callsite:{site}"),
                format!("[{tag}] input {:?} panics: {} at {site}", code, msg.chars().take(200).collect::<String>()),
                json!({"code": code, "prelude": with_prelude}),
            );
        }
        for (code, dt) in a.slow {
            rep.violation(format!("slow:{code}"), format!("[{tag}] input {:?} took {dt:.1} s", code), json!({"code": code, "prelude": with_prelude}));
        }
    }
    rep.states += n;
    rep.transitions += n;
    rep.evaluations += n;
    rep.validated += n;
    rep.nontrivial_extra += ok;
    rep.outcomes.insert(hash64(&format!("{tag}{ok}")));
    rep.set(&format!("tokens_{tag}_len{len}"), json!({"strings": n, "accepted": ok, "reported_errors": err, "alphabet": k}));
}

// ------------------------------------------------------------------------------------------------
// extremes in child processes

pub fn templates() -> Vec<(&'static str, Vec<String>)> {
    let big = ["1e30", "2^126", "1e308", "1e-320", "65535", "65536", "70000", "-1e30", "0.5e-300"];
    let reps = [255usize, 256, 65535, 65536, 70000, 100000];
    let mut v: Vec<(&'static str, Vec<String>)> = vec![];
    let mut val = |name: &'static str, f: &dyn Fn(&str) -> String| {
        v.push((name, big.iter().map(|y| f(y)).collect()));
    };
    val("power", &|y| format!("2^({y})"));
    val("unit-power", &|y| format!("m^({y})"));
    val("unit-power-twice", &|y| format!("((m/cm)^({y}))^({y})"));
    val("generic-power-product", &|y| format!("fn f(x) = x^({y}) * x^({y})\nf(2 m)"));
    val("sqrt-of-power", &|y| format!("sqrt(m^({y}))"));
    val("dimension-exponent", &|y| format!("dimension Dx = Length^({y})"));
    val("unit-definition", &|y| format!("unit ux = m^({y})\n2 ux"));
    val("factorial-value", &|y| format!("({y})!"));
    val("conversion", &|y| format!("({y}) m -> km^({y})"));
    val("datetime-add", &|y| format!("now() + ({y}) s"));
    val("from-unixtime", &|y| format!("from_unixtime(({y}) unix_s)"));
    val("range", &|y| format!("len(range(1, min(({y}), 3)))"));
    val("str-repeat", &|y| format!("str_length(str_slice(0, {y}, \"abc\"))"));
    val("base-conversion", &|y| format!("({y}) -> hex"));
    val("list-index", &|y| format!("element_at({y}, [1, 2, 3])"));
    val("format-digits", &|y| format!("\"{{{y}:.3}}\""));
    val("mod-gcd", &|y| format!("mod({y}, 7) + gcd(12, 18)"));
    // failing assertions with extreme operands and tolerances (the failure message is formatted
    // from them)
    val("assert-eq-tolerance", &|y| format!("assert_eq(1, 2, {y})"));
    val("assert-eq-tolerance-unit", &|y| format!("assert_eq(1 m, 2.5 cm, ({y}) km)"));
    val("assert-eq-operands", &|y| format!("assert_eq({y}, 2)\nassert_eq(3 m, ({y}) cm, 1 mm)"));
    val("error-message", &|y| format!("error(\"{{{y}}} {{({y}) m}}\")"));
    let mut rep = |name: &'static str, f: &dyn Fn(usize) -> String| {
        v.push((name, reps.iter().map(|n| f(*n)).collect()));
    };
    rep("factorial-order", &|n| format!("1{}", "!".repeat(n)));
    rep("nested-parens", &|n| format!("{}1{}", "(".repeat(n), ")".repeat(n)));
    rep("unary-minus-run", &|n| format!("{}1", "-".repeat(n)));
    rep("logical-not-run", &|n| format!("{}true", "!".repeat(n)));
    rep("long-list", &|n| format!("len([{}])", vec!["1"; n].join(",")));
    rep("nested-lists", &|n| format!("{}1{}", "[".repeat(n), "]".repeat(n)));
    rep("long-sum", &|n| vec!["1"; n].join("+"));
    rep("long-product-juxtaposition", &|n| vec!["2"; n].join(" "));
    rep("power-tower", &|n| vec!["1"; n].join("^"));
    rep("long-string", &|n| format!("str_length(\"{}\")", "a".repeat(n)));
    rep("hex-digits", &|n| format!("0x{}", "F".repeat(n)));
    rep("decimal-digits", &|n| format!("{}.0", "9".repeat(n)));
    rep("exponent-digits", &|n| format!("1e{}", "9".repeat(n.min(400))));
    rep("nested-if", &|n| format!("{}1{}", "if true then ".repeat(n.min(70000)), " else 0".repeat(n.min(70000))));
    rep("nested-calls", &|n| format!("{}1{}", "abs(".repeat(n), ")".repeat(n)));
    rep("field-chain", &|n| format!("struct Sx {{ a: Scalar }}\nSx {{ a: 1 }}{}", ".a".repeat(n.min(3))));
    rep("conversion-chain", &|n| format!("1 m{}", " -> m".repeat(n)));
    rep("many-statements", &|n| vec!["1"; n].join("\n"));
    rep("many-lets", &|n| (0..n.min(70000)).map(|i| format!("let v{i} = {i}")).collect::<Vec<_>>().join("\n"));
    rep("recursion-depth", &|n| format!("fn r(n) = if n == 0 then 0 else 1 + r(n - 1)\nr({})", n.min(100000)));
    rep("interpolations", &|n| format!("\"{}\"", "{1}".repeat(n)));
    rep("unicode-exponents", &|n| format!("2{}", "²".repeat(n.min(300))));
    rep("type-params", &|n| format!("fn g<{}>(x: T0) = x", (0..n.min(300)).map(|i| format!("T{i}")).collect::<Vec<_>>().join(", ")));
    rep("long-identifier", &|n| format!("let {} = 1", "a".repeat(n)));
    v
}

pub enum ChildOutcome {
    Fine(String),
    Panic(String),
    Signal(String),
    Timeout,
    Machinery(String),
}

pub fn run_child(code: &str, id: usize, limit_s: u64) -> ChildOutcome {
    let dir = format!("{VERIF_ROOT}/work/c08_{}", std::process::id());
    let _ = std::fs::create_dir_all(&dir);
    let path = format!("{dir}/case_{id}.nbt");
    if let Err(e) = std::fs::write(&path, code) {
        return ChildOutcome::Machinery(e.to_string());
    }
    let exe = std::env::current_exe().unwrap();
    // address-space limit 6 GiB so that a runaway input cannot take the machine down
    let cmd = format!("ulimit -v 6291456; exec '{}' --child c08 '{}'", exe.display(), path);
    let child = Command::new("sh").arg("-c").arg(&cmd).stdin(Stdio::null()).stdout(Stdio::piped()).stderr(Stdio::null()).env("TZ", "UTC").spawn();
    let mut child = match child {
        Ok(c) => c,
        Err(e) => return ChildOutcome::Machinery(e.to_string()),
    };
    let t0 = Instant::now();
    let status = loop {
        match child.try_wait() {
            Ok(Some(s)) => break Some(s),
            Ok(None) => {
                if t0.elapsed() > Duration::from_secs(limit_s) {
                    let _ = child.kill();
                    let _ = child.wait();
                    break None;
                }
                std::thread::sleep(Duration::from_millis(5));
            }
            Err(e) => return ChildOutcome::Machinery(e.to_string()),
        }
    };
    let mut out = String::new();
    if let Some(mut so) = child.stdout.take() {
        let _ = so.read_to_string(&mut out);
    }
    let _ = std::fs::remove_file(&path);
    match status {
        None => ChildOutcome::Timeout,
        Some(s) => {
            use std::os::unix::process::ExitStatusExt;
            if let Some(sig) = s.signal() {
                return ChildOutcome::Signal(format!("signal {sig}"));
            }
            match s.code() {
                Some(0) => ChildOutcome::Fine(out.trim().to_string()),
                Some(3) => ChildOutcome::Panic(out.trim().to_string()),
                // sh reports a signalled exec'ed process as 128+n
                Some(c) if c > 128 => ChildOutcome::Signal(format!("signal {}", c - 128)),
                Some(c) => ChildOutcome::Machinery(format!("child exit code {c}: {out}")),
                None => ChildOutcome::Machinery("no exit code".into()),
            }
        }
    }
}

/// entry point of `nbmc --child c08 <file>`
pub fn child_main(path: &str) -> i32 {
    let Ok(code) = std::fs::read_to_string(path) else { return 4 };
    let mut ctx = prelude_ctx();
    match exercise(&mut ctx, &code) {
        Ok(s) => {
            println!("{s}");
            0
        }
        Err(p) => {
            println!("{}|{}", p.site(), p.message.chars().take(300).collect::<String>());
            3
        }
    }
}


// ------------------------------------------------------------------------------------------------
// (c) every standard-library function x argument tuples from per-type edge alphabets

pub fn function_cases(thorough: bool) -> Vec<(String, Vec<String>)> {
    let ctx = prelude_ctx();
    let nums: Vec<&str> = if thorough {
        vec!["0", "1", "(-1)", "0.5", "3", "65", "2.5e-3", "NaN", "inf", "(-inf)", "(2 m)", "(0 m)", "(3 s)", "(50 percent)"]
    } else {
        vec!["0", "1", "(-1)", "0.5", "3", "65", "(2 m)"]
    };
    let strs: Vec<&str> = if thorough {
        vec!["\"\"", "\"a\"", "\"é\"", "\"a🙂b\"", "\"日本語\"", "\"a b\"", "\"%\"", "\"1e3\"", "\"2024-01-01\"", "\"UTC\""]
    } else {
        vec!["\"\"", "\"ab\"", "\"é\"", "\"a🙂b\""]
    };
    let bools = vec!["true", "false"];
    let dts = vec!["datetime(\"2024-02-29 12:00:00 UTC\")", "datetime(\"1969-12-31 23:59:59.5 UTC\")"];
    let lists: Vec<&str> = vec!["[]", "[1]", "[3, 1, 2]", "[\"é\", \"a\"]", "[2 m, 1 cm]", "[[1], []]"];
    let fns = vec!["sqr", "sin", "str_length", "id"];
    let mut out = vec![];
    let mut fs: Vec<(String, String)> = ctx.functions().map(|f| (f.fn_name.to_string(), f.signature_str.to_string())).collect();
    fs.sort();
    for (name, sig) in fs {
        // `fn name<..>(p: T, q: U) -> R`
        let Some(open) = sig.find('(') else { continue };
        let mut depth = 0;
        let mut close = None;
        for (i, c) in sig.char_indices().skip(open) {
            match c {
                '(' | '[' | '<' => depth += 1,
                ')' | ']' | '>' => {
                    depth -= 1;
                    if depth == 0 && c == ')' {
                        close = Some(i);
                        break;
                    }
                }
                _ => {}
            }
        }
        let Some(close) = close else { continue };
        let inner = &sig[open + 1..close];
        let mut params: Vec<String> = vec![];
        let mut cur = String::new();
        let mut d = 0;
        for c in inner.chars() {
            match c {
                '(' | '[' | '<' => {
                    d += 1;
                    cur.push(c)
                }
                ')' | ']' | '>' => {
                    d -= 1;
                    cur.push(c)
                }
                ',' if d == 0 => {
                    params.push(cur.trim().to_string());
                    cur.clear();
                }
                _ => cur.push(c),
            }
        }
        if !cur.trim().is_empty() {
            params.push(cur.trim().to_string());
        }
        let alphabets: Vec<&Vec<&str>> = params
            .iter()
            .map(|p| {
                let ty = p.split_once(':').map(|x| x.1.trim()).unwrap_or("");
                if ty.starts_with("Fn[") {
                    &fns
                } else if ty.starts_with("List<") {
                    &lists
                } else if ty == "String" {
                    &strs
                } else if ty == "Bool" {
                    &bools
                } else if ty == "DateTime" {
                    &dts
                } else {
                    &nums
                }
            })
            .collect();
        if alphabets.len() > 4 {
            continue;
        }
        let mut tuples: Vec<Vec<&str>> = vec![vec![]];
        for a in &alphabets {
            let mut next = vec![];
            for t in &tuples {
                for x in a.iter() {
                    let mut t2 = t.clone();
                    t2.push(*x);
                    next.push(t2);
                }
            }
            tuples = next;
        }
        let codes: Vec<String> = tuples.iter().map(|t| format!("{name}({})", t.join(", "))).collect();
        out.push((name, codes));
    }
    out
}

/// entry point of `nbmc --child c08fn <tier> <from> <to>`
pub fn child_fn_main(args: &[String]) -> i32 {
    use std::io::Write;
    let thorough = args.first().map(|s| s == "thorough").unwrap_or(false);
    let from: usize = args.get(1).and_then(|s| s.parse().ok()).unwrap_or(0);
    let to: usize = args.get(2).and_then(|s| s.parse().ok()).unwrap_or(0);
    let cases = function_cases(thorough);
    let base = prelude_ctx();
    let out = std::io::stdout();
    for (name, codes) in cases.iter().skip(from).take(to.saturating_sub(from)) {
        for code in codes {
            {
                let mut o = out.lock();
                let _ = writeln!(o, "BEGIN\t{name}\t{code}");
                let _ = o.flush();
            }
            let mut ctx = base.clone();
            if let Err(p) = exercise(&mut ctx, code) {
                let mut o = out.lock();
                let _ = writeln!(o, "PANIC\t{name}\t{code}\t{}\t{}", p.site(), p.message.replace(['\n', '\t'], " ").chars().take(200).collect::<String>());
            }
        }
    }
    println!("END");
    0
}

fn sweep_functions(rep: &mut Report) {
    let thorough = rep.tier == Tier::Thorough;
    let cases = function_cases(thorough);
    let nf = cases.len();
    let total: usize = cases.iter().map(|c| c.1.len()).sum();
    let batch = 6usize;
    let jobs: Vec<(usize, usize)> = (0..nf).step_by(batch).map(|a| (a, (a + batch).min(nf))).collect();
    let exe = std::env::current_exe().unwrap();
    struct JobOut {
        panics: Vec<(String, String, String, String)>,
        died: Vec<(String, String, String)>, // fn, code, how
        machinery: Vec<String>,
    }
    let outs: Vec<JobOut> = par_map(jobs.len(), || (), |_, j| {
        let (mut from, to) = jobs[j];
        let mut jo = JobOut { panics: vec![], died: vec![], machinery: vec![] };
        while from < to {
            let cmd = format!("ulimit -v 6291456; exec '{}' --child c08fn {} {} {}", exe.display(), if thorough { "thorough" } else { "quick" }, from, to);
            let child = Command::new("sh").arg("-c").arg(&cmd).stdin(Stdio::null()).stdout(Stdio::piped()).stderr(Stdio::null()).env("TZ", "UTC").spawn();
            let Ok(mut child) = child else {
                jo.machinery.push("cannot spawn child".into());
                break;
            };
            // read stdout on a helper thread, enforce a wall limit per child
            let mut so = child.stdout.take().unwrap();
            let reader = std::thread::spawn(move || {
                let mut s = String::new();
                let _ = so.read_to_string(&mut s);
                s
            });
            let t0 = Instant::now();
            let limit = Duration::from_secs(if thorough { 300 } else { 30 });
            let mut timed_out = false;
            loop {
                match child.try_wait() {
                    Ok(Some(_)) => break,
                    Ok(None) => {
                        if t0.elapsed() > limit {
                            let _ = child.kill();
                            let _ = child.wait();
                            timed_out = true;
                            break;
                        }
                        std::thread::sleep(Duration::from_millis(10));
                    }
                    Err(_) => break,
                }
            }
            let text = reader.join().unwrap_or_default();
            let mut last_begin: Option<(String, String)> = None;
            let mut ended = false;
            for l in text.lines() {
                let parts: Vec<&str> = l.split('\t').collect();
                match parts[0] {
                    "BEGIN" if parts.len() >= 3 => last_begin = Some((parts[1].to_string(), parts[2].to_string())),
                    "PANIC" if parts.len() >= 5 => jo.panics.push((parts[1].into(), parts[2].into(), parts[3].into(), parts[4].into())),
                    "END" => ended = true,
                    _ => {}
                }
            }
            if ended {
                break;
            }
            // the child died or hung in `last_begin`
            match last_begin {
                Some((f, code)) => {
                    let idx = cases.iter().position(|c| c.0 == f).unwrap_or(to);
                    jo.died.push((f, code, if timed_out { "timeout".into() } else { "killed".into() }));
                    from = idx + 1; // continue after the offending function
                }
                None => {
                    jo.machinery.push("child produced no output".into());
                    break;
                }
            }
        }
        jo
    });
    let mut unspecified = 0u64;
    for jo in outs {
        for (f, code, site, msg) in jo.panics {
            rep.violation(format!("callsite:{site}"), format!("`{code}` panics: {msg} at {site}"), json!({"code": code, "prelude": true, "function": f}));
        }
        for (f, code, how) in jo.died {
            // non-finite or dimension-mismatched loop bounds make library loops legitimately endless
            if code.contains("NaN") || code.contains("inf") {
                unspecified += 1;
                eprintln!("[C08] unspecified ({how}): {code}");
                continue;
            }
            rep.violation(format!("{how}:fn:{f}"), format!("`{code}`: the interpreter process was {how} (abort, memory limit or > time limit)"), json!({"code": code, "prelude": true, "function": f}));
        }
        for m in jo.machinery {
            rep.machinery_error(m);
        }
    }
    rep.states += total as u64;
    rep.transitions += total as u64;
    rep.evaluations += total as u64;
    rep.validated += total as u64;
    rep.nontrivial_extra += nf as u64;
    rep.set("library_functions_swept", json!(nf));
    rep.set("function_argument_tuples", json!(total));
    rep.set("function_cases_unspecified_nonfinite_loop_bounds", json!(unspecified));
}

// ------------------------------------------------------------------------------------------------
// (d) redefinition histories: every sequence of <= n statements over an alphabet in which one name
// is defined as functions of different arity, a variable, a unit, a struct and a function value,
// and used in every call shape (the token strings of (a) are too short to redefine anything)

pub const REDEF: [&str; 18] = [
    "fn rdh() = 0",
    "fn rdh(x) = x",
    "fn rdh(x, y) = x + y",
    "fn rdh(x: Length) -> Length = 2 x",
    "let rdh = 1",
    "let rdg = rdh",
    "rdg()",
    "rdg(1)",
    "rdg(1, 2)",
    "rdh",
    "rdh(1 m)",
    "fn rdk(f) = f(1)\nrdk(rdg)",
    "[rdg] |> head",
    "unit rdh",
    "struct rdh { a: Scalar }",
    "let rdg = [rdh, rdh]",
    "fn rdh(x) = if x < 1 then 0 else len([rdh]) + rdh(x - 1)",
    "rdh(2)",
];

/// (d2) last-result histories: `ans` / `_` change their type with every expression statement;
/// values of every kind, functions and variables that capture them, and uses of every kind
pub const LASTRES: [&str; 12] = [
    "\"s\"",
    "1 m",
    "true",
    "fn rda() = ans",
    "fn rdb(x) = x + _",
    "rda()",
    "rda() + 1 m",
    "str_length(rda())",
    "rdb(1 m)",
    "let rdv = ans",
    "rdv + 1 m",
    "ans + 1 m",
];

fn sweep_redefinitions(rep: &mut Report) {
    sweep_histories(rep, &REDEF, "redefinition_histories");
    sweep_histories(rep, &LASTRES, "last_result_histories");
}

fn sweep_histories(rep: &mut Report, alphabet: &'static [&'static str], tag: &str) {
    let n = rep.tier.pick(4usize, 5usize);
    let k = alphabet.len();
    // a small session (the cost of one input grows with the size of the session): the modules the
    // alphabets need
    let base = {
        let mut c = fresh_builtin_ctx();
        let r = run(&mut c, "use core::lists\nuse core::strings\nuse units::si");
        assert!(r.is_ok(), "C08 history session: {:?}", r.err_string());
        c
    };
    let mut total = 0usize;
    for len in 1..=n {
        total += k.pow(len as u32);
    }
    // index -> (len, digits)
    let decode = |mut idx: usize| -> Vec<usize> {
        let mut len = 1;
        loop {
            let c = k.pow(len as u32);
            if idx < c {
                break;
            }
            idx -= c;
            len += 1;
        }
        let mut v = vec![0; len];
        for p in (0..len).rev() {
            v[p] = idx % k;
            idx /= k;
        }
        v
    };
    let chunk = 500usize;
    let jobs = total.div_ceil(chunk);
    let outs: Vec<(u64, u64, Vec<(String, String, String)>)> = par_map(jobs, || (), |_, j| {
        let (mut steps, mut ok) = (0u64, 0u64);
        let mut panics = vec![];
        for idx in j * chunk..((j + 1) * chunk).min(total) {
            let seq = decode(idx);
            // the whole history as ONE input (the late-bound call then sees the final definitions
            // before anything has run)
            if seq.len() > 1 {
                let joined: Vec<&str> = seq.iter().map(|&i| alphabet[i]).collect();
                let joined = joined.join("\n");
                let mut ctx = base.clone();
                steps += 1;
                match watch::watched("C08", "history", &format!("ONE INPUT:\n{joined}"), || exercise(&mut ctx, &joined)) {
                    Ok("ok") => ok += 1,
                    Ok(_) => {}
                    Err(p) => {
                        if panics.len() < 20 {
                            panics.push((p.site(), p.message.clone(), format!("ONE INPUT:\n{joined}")));
                        }
                    }
                }
            }
            let mut ctx = base.clone();
            for (pos, &s) in seq.iter().enumerate() {
                steps += 1;
                match watch::watched("C08", "code", alphabet[s], || exercise(&mut ctx, alphabet[s])) {
                    Ok("ok") => ok += 1,
                    Ok(_) => {}
                    Err(p) => {
                        if panics.len() < 20 {
                            let hist: Vec<&str> = seq[..=pos].iter().map(|&i| alphabet[i]).collect();
                            panics.push((p.site(), p.message.clone(), hist.join("\n")));
                        }
                        break; // the session may be inconsistent after a panic
                    }
                }
            }
        }
        (steps, ok, panics)
    });
    let (mut steps, mut ok) = (0u64, 0u64);
    for (s, o, panics) in outs {
        steps += s;
        ok += o;
        for (site, msg, hist) in panics {
            // recorded class: a function body that captures `ans` / `_` is typed with the last result
            // of its definition time but reads the current one when called
            // (the capturing function must have been called after its definition: the mistyped value
            // may also surface one statement later, through `ans`)
            let called_after = |def: &str, call: &str| hist.find(def).map(|p| hist[p + def.len()..].contains(call)).unwrap_or(false);
            let captures = called_after("fn rda() = ans", "rda(") || called_after("fn rdb(x) = x + _", "rdb(");
            let key = if captures { "class:last-result-captured-in-function-body".to_string() } else { format!("callsite:{site}") };
            rep.violation(
                key,
                format!("[{tag}] `{}` panics: {} at {site}", hist.replace('\n', "⏎"), msg.chars().take(200).collect::<String>()),
                json!({"history": hist, "alphabet": tag}),
            );
        }
    }
    rep.states += total as u64;
    rep.transitions += steps;
    rep.evaluations += total as u64;
    rep.validated += total as u64;
    rep.nontrivial_extra += ok;
    rep.set(tag, json!({"sequences": total, "max_length": n, "alphabet": k, "statements_run": steps, "statements_accepted": ok}));
}

// ------------------------------------------------------------------------------------------------
// (f) single-token mutations of the documented example corpus: every `@example` snippet of the
// standard library, with every token deleted, duplicated, swapped with its successor, and replaced
// by every token of a structural alphabet, in a session with every module loaded

const MUTANT_TOKENS: [&str; 18] = ["0", "(", ")", "[", "]", "\"", "-", "^", "!", "→", "²", "m", "=", ",", "|>", "{", "}", "true"];

fn lex_crude(s: &str) -> Vec<String> {
    let cs: Vec<char> = s.chars().collect();
    let mut out = vec![];
    let mut i = 0;
    while i < cs.len() {
        let c = cs[i];
        if c.is_whitespace() {
            i += 1;
        } else if c.is_alphanumeric() || c == '_' {
            let mut j = i;
            while j < cs.len() && (cs[j].is_alphanumeric() || cs[j] == '_' || cs[j] == '.') {
                j += 1;
            }
            out.push(cs[i..j].iter().collect());
            i = j;
        } else if c == '"' {
            let mut j = i + 1;
            while j < cs.len() && cs[j] != '"' {
                if cs[j] == '\\' {
                    j += 1;
                }
                j += 1;
            }
            out.push(cs[i..(j + 1).min(cs.len())].iter().collect());
            i = j + 1;
        } else {
            out.push(c.to_string());
            i += 1;
        }
    }
    out
}

fn sweep_corpus_mutations(rep: &mut Report) {
    let base = all_ctx();
    let mut corpus: Vec<String> = vec![];
    for f in base.functions() {
        for (code, _) in &f.examples {
            if !code.contains("args()") && !code.contains("random") && !code.contains("now()") {
                corpus.push(code.to_string());
            }
        }
    }
    corpus.sort();
    corpus.dedup();
    let mut mutants: Vec<String> = vec![];
    for ex in &corpus {
        let toks = lex_crude(ex);
        for i in 0..toks.len() {
            let join = |v: &Vec<String>| v.join(" ");
            let mut d = toks.clone();
            d.remove(i);
            mutants.push(join(&d));
            let mut d = toks.clone();
            d.insert(i, toks[i].clone());
            mutants.push(join(&d));
            if i + 1 < toks.len() {
                let mut d = toks.clone();
                d.swap(i, i + 1);
                mutants.push(join(&d));
            }
            for t in MUTANT_TOKENS {
                let mut d = toks.clone();
                d[i] = t.to_string();
                mutants.push(join(&d));
            }
        }
    }
    mutants.sort();
    mutants.dedup();
    let n = mutants.len();
    let chunk = 200usize;
    let jobs = n.div_ceil(chunk);
    let outs: Vec<(u64, Vec<(String, String, String)>, Vec<(String, f64)>)> = par_map(jobs, || (), |_, j| {
        let mut ok = 0u64;
        let mut panics = vec![];
        let mut slow = vec![];
        for code in &mutants[j * chunk..((j + 1) * chunk).min(n)] {
            let mut ctx = base.clone();
            let t0 = Instant::now();
            match watch::watched("C08", "code", code, || exercise(&mut ctx, code)) {
                Ok("ok") => ok += 1,
                Ok(_) => {}
                Err(p) => {
                    if panics.len() < 20 {
                        panics.push((p.site(), p.message.clone(), code.clone()));
                    }
                }
            }
            let dt = t0.elapsed().as_secs_f64();
            if dt > 10.0 {
                slow.push((code.clone(), dt));
            }
        }
        (ok, panics, slow)
    });
    let mut ok = 0u64;
    for (o, panics, slow) in outs {
        ok += o;
        for (site, msg, code) in panics {
            rep.violation(format!("callsite:{site}"), format!("[example mutation] input {:?} panics: {} at {site}", code, msg.chars().take(200).collect::<String>()), json!({"code": code, "all_modules": true}));
        }
        for (code, dt) in slow {
            rep.violation(format!("slow:{code}"), format!("[example mutation] input {:?} took {dt:.1} s", code), json!({"code": code, "all_modules": true}));
        }
    }
    rep.states += n as u64;
    rep.transitions += n as u64;
    rep.evaluations += n as u64;
    rep.validated += n as u64;
    rep.nontrivial_extra += ok;
    rep.set("example_mutations", json!({"examples": corpus.len(), "mutants": n, "accepted": ok, "replacement_tokens": MUTANT_TOKENS.len()}));
}

pub fn check(rep: &mut Report) {
    let t_start = Instant::now();
    // (a)
    match rep.tier {
        Tier::Quick => {
            sweep(rep, 1, &TOKENS, true, "prelude");
            sweep(rep, 2, &TOKENS, true, "prelude");
            sweep(rep, 3, &TOKENS, false, "fresh");
            sweep(rep, 3, &TOKENS[..36], true, "prelude");
        }
        Tier::Thorough => {
            sweep(rep, 1, &TOKENS, true, "prelude");
            sweep(rep, 2, &TOKENS, true, "prelude");
            sweep(rep, 3, &TOKENS, true, "prelude");
            sweep(rep, 4, &TOKENS, false, "fresh");
            sweep(rep, 4, &TOKENS[..36], true, "prelude");
        }
    }
    // (e) character strings
    for l in 1..=3 {
        sweep_sep(rep, l, &CHARS, false, "chars", "");
    }
    sweep_sep(rep, 2, &CHARS, true, "chars-prelude", "");
    if rep.tier == Tier::Thorough {
        sweep_sep(rep, 4, &CHARS[..56], false, "chars", "");
    }
    eprintln!("[C08] token and character sweeps done at {:.1}s", t_start.elapsed().as_secs_f64());
    // (f)
    sweep_corpus_mutations(rep);
    eprintln!("[C08] example mutations done at {:.1}s", t_start.elapsed().as_secs_f64());
    // (d)
    sweep_redefinitions(rep);
    eprintln!("[C08] redefinition histories done at {:.1}s", t_start.elapsed().as_secs_f64());
    // (c)
    sweep_functions(rep);
    eprintln!("[C08] function sweep done at {:.1}s", t_start.elapsed().as_secs_f64());
    // (b)
    let ts = templates();
    let limit_s: u64 = rep.tier.pick(60, 60);
    let mut cases: Vec<(String, String)> = vec![];
    for (name, inputs) in &ts {
        for (i, code) in inputs.iter().enumerate() {
            if rep.tier == Tier::Quick && inputs.len() == 6 && (i != 1 && i != 3) {
                continue; // quick: repetition counts 256 and 65536 only
            }
            if rep.tier == Tier::Quick && *name == "many-lets" {
                continue; // takes more than the time limit by design of the finding; thorough only
            }
            cases.push((format!("{name}#{i}"), code.clone()));
        }
    }
    let outs: Vec<ChildOutcome> = par_map(cases.len(), || (), |_, i| {
        let t0 = Instant::now();
        let o = run_child(&cases[i].1, i, limit_s);
        if t0.elapsed().as_secs_f64() > 2.0 {
            eprintln!("[C08] {} took {:.1}s", cases[i].0, t0.elapsed().as_secs_f64());
        }
        o
    });
    let (mut fine, mut bad) = (0u64, 0u64);
    for (i, o) in outs.into_iter().enumerate() {
        let (name, code) = &cases[i];
        let template = name.split('#').next().unwrap();
        let shown: String = if code.len() > 120 { format!("{}… ({} bytes)", code.chars().take(60).collect::<String>().replace('\n', "⏎"), code.len()) } else { code.replace('\n', "⏎") };
        rep.states += 1;
        rep.transitions += 1;
        rep.evaluations += 1;
        match o {
            ChildOutcome::Fine(s) => {
                fine += 1;
                rep.validated += 1;
                rep.nontrivial_case(name);
                rep.outcome(&s);
                if i % 37 == 0 {
                    rep.sample(json!({"template": name, "input": shown, "outcome": s}));
                }
            }
            ChildOutcome::Panic(info) => {
                bad += 1;
                rep.validated += 1;
                let site = info.split('|').next().unwrap_or("").to_string();
                rep.violation(format!("callsite:{site}"), format!("template {name}: input `{shown}` panics: {info}"), json!({"template": name, "code_prefix": shown, "child": true}));
            }
            ChildOutcome::Signal(sig) => {
                bad += 1;
                rep.validated += 1;
                rep.violation(format!("abort:{template}"), format!("template {name}: input `{shown}` kills the process ({sig}: stack overflow or abort)"), json!({"template": name, "code_prefix": shown, "child": true}));
            }
            ChildOutcome::Timeout => {
                bad += 1;
                rep.validated += 1;
                rep.violation(format!("hang:{template}"), format!("template {name}: input `{shown}` did not finish within the time limit ({limit_s} s)"), json!({"template": name, "code_prefix": shown, "child": true}));
            }
            ChildOutcome::Machinery(e) => rep.machinery_error(format!("{name}: {e}")),
        }
    }
    let _ = std::fs::remove_dir_all(format!("{VERIF_ROOT}/work/c08_{}", std::process::id()));
    rep.set("extreme_templates", json!(ts.len()));
    rep.set("extreme_cases", json!(cases.len()));
    rep.set("extreme_cases_handled_gracefully", json!(fine));
    rep.set("extreme_cases_crashing", json!(bad));
    rep.rule = "(a) every token string of length <= L over an alphabet with one spelling of every token kind (53 tokens; prelude session: 36-token sub-alphabet at the top length), each interpreted in a fresh clone with the result echoed or the diagnostic rendered; (e) every character string of length <= 3 over a 76-character alphabet with one representative of every tokenizer character class (all superscript/subscript shapes, Unicode operator spellings, quotes, escapes, control and zero-width characters; thorough: length 4 over 56 of them); (f) every single-token mutation (deletion, duplication, swap with the successor, replacement by each of 18 structural tokens) of every documented @example snippet, in a session with every module loaded; (b) every template x extreme value/repetition count, each in its own child process with an 8 s (quick) / 20 s (thorough) limit and a 6 GiB address-space limit; (c) every standard-library function x every argument tuple from per-type edge alphabets (numbers incl. NaN/inf and dimensionful values, ASCII/multi-byte/empty strings, lists, booleans, date-times, function values), in child processes; (d) every history of <= 4 (thorough 5) statements over an 18-statement alphabet that defines one name as functions of different arity, a variable, a unit, a struct and a function value and uses it in every call shape, on a session with core::lists, core::strings and units::si, run statement by statement and as one input, and likewise over a 12-statement alphabet of values of every kind, functions and variables capturing `ans` / `_`, and uses of them; non-trivial = accepted token strings + extreme cases + functions swept + accepted history statements".into();
    rep.assumptions = vec![
        "the harness builds numbat with debug assertions and overflow checks (a 'checked build')".into(),
        "random byte soup is not in this family; tokenizer states needing longer contexts than L tokens are only reached through the templates".into(),
        "crashes are keyed by panic call site (or by template for aborts/hangs) so that many inputs funnelling into one site are one finding".into(),
    ];
}

pub fn replay(case: &J) -> i32 {
    if case["child"].as_bool().unwrap_or(false) {
        let name = case["template"].as_str().unwrap_or("");
        let (t, idx) = name.split_once('#').unwrap_or((name, "0"));
        let idx: usize = idx.parse().unwrap_or(0);
        for (n, inputs) in templates() {
            if n == t {
                let code = &inputs[idx];
                return match run_child(code, 0, 20) {
                    ChildOutcome::Fine(s) => {
                        println!("{s}: no violation on this tree");
                        0
                    }
                    ChildOutcome::Panic(p) => {
                        println!("VIOLATION reproduced: panic {p}");
                        1
                    }
                    ChildOutcome::Signal(s) => {
                        println!("VIOLATION reproduced: {s}");
                        1
                    }
                    ChildOutcome::Timeout => {
                        println!("VIOLATION reproduced: timeout");
                        1
                    }
                    ChildOutcome::Machinery(e) => {
                        println!("machinery: {e}");
                        2
                    }
                };
            }
        }
        return 2;
    }
    if let Some(hist) = case["history"].as_str() {
        let mut ctx = fresh_builtin_ctx();
        let _ = run(&mut ctx, "use core::lists\nuse core::strings\nuse units::si");
        if let Some(joined) = hist.strip_prefix("ONE INPUT:\n") {
            println!("{joined}");
            return match exercise(&mut ctx, joined) {
                Ok(_) => {
                    println!("no violation on this tree");
                    0
                }
                Err(p) => {
                    println!("VIOLATION reproduced: {} at {}", p.message, p.location);
                    1
                }
            };
        }
        // statements of the alphabet may span two lines; replay them in the recorded grouping
        let mut rest = hist;
        while !rest.is_empty() {
            let stmt = REDEF.iter().chain(LASTRES.iter()).filter(|s| rest.starts_with(**s)).max_by_key(|s| s.len()).copied().unwrap_or(rest);
            println!("> {}", stmt.replace('\n', "⏎"));
            if let Err(p) = exercise(&mut ctx, stmt) {
                println!("VIOLATION reproduced: {} at {}", p.message, p.location);
                return 1;
            }
            rest = rest[stmt.len()..].trim_start_matches('\n');
        }
        println!("no violation on this tree");
        return 0;
    }
    if case["all_modules"].as_bool().unwrap_or(false) {
        let code = case["code"].as_str().unwrap_or("");
        let mut ctx = all_ctx();
        return match exercise(&mut ctx, code) {
            Ok(s) => {
                println!("{s}: no violation on this tree");
                0
            }
            Err(p) => {
                println!("VIOLATION reproduced: {} at {}", p.message, p.location);
                1
            }
        };
    }
    let code = case["code"].as_str().unwrap_or("");
    let mut ctx = if case["prelude"].as_bool().unwrap_or(true) { prelude_ctx() } else { Context::new_without_importer() };
    match exercise(&mut ctx, code) {
        Ok(s) => {
            println!("{s}: no violation on this tree");
            0
        }
        Err(p) => {
            println!("VIOLATION reproduced: {} at {}", p.message, p.location);
            1
        }
    }
}
