//! Session observation: everything about a `Context` that a user can see, in a canonical
//! (sorted, hash-order-independent) text form.

use crate::common::*;
use numbat::Context;

/// Observable static part of a session: names, signatures, units, dimensions, imported modules,
/// raw values of all variables.
pub fn static_obs(ctx: &Context) -> String {
    // the accessors themselves can panic on an inconsistent session (e.g. `functions()` unwraps a
    // lookup): that is an observation, not a machinery failure
    match guarded(|| static_obs_inner(ctx)) {
        Ok(s) => s,
        Err(p) => format!("OBSERVATION PANICKED: {} at {}\n", p.message, p.site()),
    }
}

fn static_obs_inner(ctx: &Context) -> String {
    let mut out = String::new();
    let mut vars: Vec<String> = ctx.variable_names().map(|s| s.to_string()).collect();
    vars.sort();
    vars.dedup();
    out.push_str("VARS\n");
    for v in &vars {
        let raw = ctx
            .verif_raw_global(v)
            .map(|x| value_fingerprint(&x))
            .unwrap_or_else(|| "<no slot>".into());
        out.push_str(&format!("  {v} = {raw}\n"));
    }
    let mut funs: Vec<String> = ctx
        .functions()
        .map(|f| format!("{} :: {}", f.fn_name, f.signature_str))
        .collect();
    funs.sort();
    out.push_str("FUNS\n");
    for f in &funs {
        out.push_str(&format!("  {f}\n"));
    }
    let mut fnames: Vec<String> = ctx.function_names().map(|s| s.to_string()).collect();
    fnames.sort();
    fnames.dedup();
    out.push_str(&format!("FNAMES {}\n", fnames.join(",")));
    let mut units: Vec<String> = ctx
        .unit_names()
        .iter()
        .map(|names| names.iter().map(|s| s.as_str()).collect::<Vec<_>>().join("/"))
        .collect();
    units.sort();
    units.dedup();
    out.push_str(&format!("UNITNAMES {}\n", units.join(",")));
    let mut ureps: Vec<String> = ctx
        .unit_representations()
        .map(|(name, (base, meta))| {
            format!(
                "{name} = {base} [{}] aliases={:?} m={} b={}",
                meta.readable_type,
                meta.aliases
                    .iter()
                    .map(|(a, ap)| format!("{a}:{}{}", ap.short as u8, ap.long as u8))
                    .collect::<Vec<_>>(),
                meta.metric_prefixes,
                meta.binary_prefixes
            )
        })
        .collect();
    ureps.sort();
    out.push_str("UNITS\n");
    for u in &ureps {
        out.push_str(&format!("  {u}\n"));
    }
    let mut dims: Vec<String> = ctx
        .dimension_names()
        .iter()
        .map(|d| {
            let base = ctx
                .dimension_registry()
                .get_base_representation_for_name(d)
                .map(|b| b.to_string())
                .unwrap_or_else(|_| "?".into());
            format!("{d} = {base}")
        })
        .collect();
    dims.sort();
    dims.dedup();
    out.push_str(&format!("DIMS {}\n", dims.join(",")));
    let mut mods: Vec<String> = ctx
        .resolver()
        .imported_modules
        .iter()
        .map(|m| m.to_string())
        .collect();
    mods.sort();
    mods.dedup();
    out.push_str(&format!("MODULES {}\n", mods.join(",")));
    let (stack, frames) = ctx.verif_vm_shape();
    out.push_str(&format!("VM stack={stack} frames={frames}\n"));
    out
}

/// Outcome of one input, in comparable form (value fingerprint + display, prints, echo, error).
pub fn outcome_text(r: &RunResult) -> String {
    let mut s = r.fingerprint();
    if let Some(v) = r.value() {
        s.push_str(&format!(" shown={}", v.pretty_print()));
    }
    if let Some(t) = &r.last_type {
        s.push_str(&format!(" type={t}"));
    }
    if !r.printed.is_empty() {
        s.push_str(&format!(" printed={:?}", r.printed));
    }
    if !r.statements.is_empty() {
        s.push_str(&format!(" echo={:?}", r.statements));
    }
    s
}

/// Full observation = static part + outcome of every probe input on a clone.
pub fn full_obs(ctx: &Context, probes: &[String]) -> String {
    let mut out = static_obs(ctx);
    out.push_str("PROBES\n");
    for p in probes {
        let mut c = ctx.clone();
        let r = run(&mut c, p);
        out.push_str(&format!("  {:?} => {}\n", p, outcome_text(&r)));
    }
    out
}

/// first differing line of two observations
pub fn first_diff(a: &str, b: &str) -> String {
    let la: Vec<&str> = a.lines().collect();
    let lb: Vec<&str> = b.lines().collect();
    for i in 0..la.len().max(lb.len()) {
        let x = la.get(i).copied().unwrap_or("<missing>");
        let y = lb.get(i).copied().unwrap_or("<missing>");
        if x != y {
            return format!("before: `{}`  after: `{}`", x.trim(), y.trim());
        }
    }
    "<no difference>".into()
}
