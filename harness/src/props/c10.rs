//! C10 — parsing follows the documented grammar and precedence table.
//!
//! Reference: a recursive-descent parser written from the EBNF in the parser's header comment and
//! the precedence table of book/src/basics/operations.md, producing the same canonical
//! S-expressions as the `parse_sexpr` hook.  All token strings up to length L over a 25-token
//! alphabet are enumerated; spelling variants and all short literal strings are swept as well.

use crate::common::*;
use serde_json::{Value as J, json};

pub const TOKENS: [&str; 25] = [
    "2", "x", "f", "(", ")", ",", ".b", "-", "+", "!", "*", "/", "per", "^", "->", "<", "==", "&&", "||", "|>", "²", "⁻¹", "if", "then", "else",
];

#[derive(Clone, Copy, PartialEq, Eq, Debug)]
pub enum Tiers {
    /// `*` `/` one left-associative tier, `+` `-` one tier (EBNF)
    Ebnf,
    /// book table read literally: `/` tighter than `*`, `-` tighter than `+`
    Book,
}

pub struct P<'a> {
    t: &'a [&'a str],
    i: usize,
    tiers: Tiers,
    /// set when the input uses a construct the documents leave open
    pub unspecified: bool,
    /// accept any parenthesised / chained expression after `|>` as long as it is syntactically an
    /// identifier or a call (what the implementation does); used only to classify violations
    pub lenient_pipe: bool,
}

type R = Result<String, ()>;

impl<'a> P<'a> {
    pub fn new(t: &'a [&'a str], tiers: Tiers) -> Self {
        P { t, i: 0, tiers, unspecified: false, lenient_pipe: false }
    }
    fn peek(&self) -> Option<&'a str> {
        self.t.get(self.i).copied()
    }
    fn eat(&mut self, s: &str) -> bool {
        if self.peek() == Some(s) {
            self.i += 1;
            true
        } else {
            false
        }
    }
    pub fn parse_all(&mut self) -> R {
        let e = self.expression()?;
        if self.i != self.t.len() {
            return Err(());
        }
        Ok(e)
    }
    fn expression(&mut self) -> R {
        self.postfix_apply()
    }
    fn postfix_apply(&mut self) -> R {
        let mut e = self.condition()?;
        while self.eat("|>") {
            if self.lenient_pipe {
                let target = self.call()?;
                if target.starts_with("(id ") {
                    e = format!("(call {target} {e})");
                } else if target.starts_with("(call ") {
                    e = format!("{} {e})", &target[..target.len() - 1]);
                } else {
                    return Err(());
                }
                continue;
            }
            // documented forms: `x |> f` (EBNF, operations table) and `x |> f(args)` (book examples)
            let Some(name) = self.peek() else { return Err(()) };
            if !is_ident(name) {
                return Err(());
            }
            self.i += 1;
            if self.eat("(") {
                let mut args = vec![];
                if !self.eat(")") {
                    loop {
                        args.push(self.expression()?);
                        if self.eat(",") {
                            if self.peek() == Some(")") {
                                self.unspecified = true;
                                self.i += 1;
                                break;
                            }
                            continue;
                        }
                        if self.eat(")") {
                            break;
                        }
                        return Err(());
                    }
                }
                let mut c = format!("(call (id {name})");
                for a in args {
                    c.push(' ');
                    c.push_str(&a);
                }
                e = format!("{c} {e})");
                // a further call or field access on the target is not a documented form
                if matches!(self.peek(), Some("(")) || self.peek().map(|t| t.starts_with('.')).unwrap_or(false) {
                    return Err(());
                }
            } else {
                if self.peek().map(|t| t.starts_with('.')).unwrap_or(false) {
                    return Err(());
                }
                e = format!("(call (id {name}) {e})");
            }
        }
        Ok(e)
    }
    fn condition(&mut self) -> R {
        if self.eat("if") {
            let c = self.conversion()?;
            if !self.eat("then") {
                return Err(());
            }
            let a = self.condition()?;
            if !self.eat("else") {
                return Err(());
            }
            let b = self.condition()?;
            Ok(format!("(if {c} {a} {b})"))
        } else {
            self.conversion()
        }
    }
    fn binl(&mut self, ops: &[(&str, &str)], next: fn(&mut Self) -> R) -> R {
        let mut e = next(self)?;
        loop {
            let Some(tok) = self.peek() else { break };
            let Some((_, name)) = ops.iter().find(|(o, _)| *o == tok) else { break };
            self.i += 1;
            let r = next(self)?;
            e = format!("({name} {e} {r})");
        }
        Ok(e)
    }
    fn conversion(&mut self) -> R {
        self.binl(&[("->", "->"), ("to", "->"), ("→", "->"), ("➞", "->")], Self::logical_or)
    }
    fn logical_or(&mut self) -> R {
        self.binl(&[("||", "||")], Self::logical_and)
    }
    fn logical_and(&mut self) -> R {
        self.binl(&[("&&", "&&")], Self::logical_neg)
    }
    fn logical_neg(&mut self) -> R {
        if self.eat("!") {
            let e = self.logical_neg()?;
            Ok(format!("(not {e})"))
        } else {
            self.comparison()
        }
    }
    fn comparison(&mut self) -> R {
        self.binl(
            &[("<", "<"), (">", ">"), ("<=", "<="), (">=", ">="), ("==", "=="), ("!=", "!="), ("≤", "<="), ("≥", ">="), ("≠", "!=")],
            Self::term,
        )
    }
    fn term(&mut self) -> R {
        match self.tiers {
            Tiers::Ebnf => self.binl(&[("+", "+"), ("-", "-")], Self::factor),
            Tiers::Book => self.binl(&[("+", "+")], Self::term_sub),
        }
    }
    fn term_sub(&mut self) -> R {
        self.binl(&[("-", "-")], Self::factor)
    }
    fn factor(&mut self) -> R {
        match self.tiers {
            Tiers::Ebnf => self.binl(&[("*", "*"), ("/", "/"), ("×", "*"), ("·", "*"), ("⋅", "*"), ("÷", "/")], Self::per_factor),
            Tiers::Book => self.binl(&[("*", "*"), ("×", "*"), ("·", "*"), ("⋅", "*")], Self::factor_div),
        }
    }
    fn factor_div(&mut self) -> R {
        self.binl(&[("/", "/"), ("÷", "/")], Self::per_factor)
    }
    fn per_factor(&mut self) -> R {
        self.binl(&[("per", "/")], Self::unary)
    }
    fn unary(&mut self) -> R {
        if self.eat("-") {
            let e = self.unary()?;
            Ok(format!("(neg {e})"))
        } else if self.eat("+") {
            self.unary()
        } else {
            self.ifactor()
        }
    }
    fn starts_primary(tok: &str) -> bool {
        tok == "(" || is_number(tok) || is_ident(tok)
    }
    fn ifactor(&mut self) -> R {
        let mut e = self.power()?;
        while let Some(tok) = self.peek() {
            if !Self::starts_primary(tok) {
                break;
            }
            let r = self.power()?;
            e = format!("(* {e} {r})");
        }
        Ok(e)
    }
    fn power(&mut self) -> R {
        let base = self.factorial()?;
        if self.eat("^") || self.eat("**") {
            let neg = self.eat("-");
            let mut r = self.power()?;
            if neg {
                r = format!("(neg {r})");
            }
            Ok(format!("(^ {base} {r})"))
        } else {
            Ok(base)
        }
    }
    fn factorial(&mut self) -> R {
        let mut e = self.unicode_power()?;
        let mut order = 0;
        while self.eat("!") {
            order += 1;
        }
        if order > 0 {
            e = format!("(fact{order} {e})");
        }
        Ok(e)
    }
    fn unicode_power(&mut self) -> R {
        let e = self.call()?;
        if let Some(tok) = self.peek() {
            if let Some(n) = unicode_exp(tok) {
                self.i += 1;
                if self.peek().and_then(unicode_exp).is_some() {
                    // a second unicode exponent: the documents do not say
                    self.unspecified = true;
                }
                return Ok(format!("(^ {e} (num {n:?}))"));
            }
        }
        Ok(e)
    }
    fn call(&mut self) -> R {
        let mut e = self.primary()?;
        loop {
            if self.eat("(") {
                let mut args = vec![];
                if !self.eat(")") {
                    loop {
                        args.push(self.expression()?);
                        if self.eat(",") {
                            if self.peek() == Some(")") {
                                // trailing comma: not in the documents
                                self.unspecified = true;
                                self.i += 1;
                                break;
                            }
                            continue;
                        }
                        if self.eat(")") {
                            break;
                        }
                        return Err(());
                    }
                }
                let mut s = format!("(call {e}");
                for a in args {
                    s.push(' ');
                    s.push_str(&a);
                }
                s.push(')');
                e = s;
            } else if let Some(tok) = self.peek() {
                if let Some(field) = tok.strip_prefix('.') {
                    if !field.is_empty() && is_ident(field) {
                        self.i += 1;
                        e = format!("(field {e} {field})");
                        continue;
                    }
                }
                break;
            } else {
                break;
            }
        }
        Ok(e)
    }
    fn primary(&mut self) -> R {
        let Some(tok) = self.peek() else { return Err(()) };
        if is_number(tok) {
            self.i += 1;
            let v: f64 = tok.parse().map_err(|_| ())?;
            return Ok(format!("(num {v:?})"));
        }
        if is_ident(tok) {
            self.i += 1;
            return Ok(format!("(id {tok})"));
        }
        if self.eat("(") {
            let e = self.expression()?;
            if !self.eat(")") {
                return Err(());
            }
            return Ok(e);
        }
        Err(())
    }
}

fn is_number(t: &str) -> bool {
    t.chars().next().map(|c| c.is_ascii_digit()).unwrap_or(false)
}
fn is_ident(t: &str) -> bool {
    const KW: [&str; 6] = ["per", "if", "then", "else", "to", "NaN"];
    !KW.contains(&t) && t.chars().next().map(|c| c.is_ascii_alphabetic()).unwrap_or(false) && t.chars().all(|c| c.is_ascii_alphanumeric())
}
fn unicode_exp(t: &str) -> Option<f64> {
    match t {
        "²" => Some(2.0),
        "³" => Some(3.0),
        "⁻¹" => Some(-1.0),
        "⁻²" => Some(-2.0),
        _ => None,
    }
}

#[derive(Debug, PartialEq)]
pub enum Verdict {
    MustParseAs(Vec<String>),
    MustReject,
    Unspecified,
}

pub fn reference(tokens: &[&str]) -> Verdict {
    let mut a = P::new(tokens, Tiers::Ebnf);
    let ra = a.parse_all();
    let mut b = P::new(tokens, Tiers::Book);
    let rb = b.parse_all();
    if a.unspecified || b.unspecified {
        return Verdict::Unspecified;
    }
    match (ra, rb) {
        (Ok(x), Ok(y)) => {
            if x == y {
                Verdict::MustParseAs(vec![x])
            } else {
                Verdict::MustParseAs(vec![x, y])
            }
        }
        (Err(()), Err(())) => Verdict::MustReject,
        _ => Verdict::Unspecified,
    }
}

pub fn implementation(text: &str) -> Result<String, String> {
    match guarded(|| numbat::verif::parse_sexpr(text)) {
        Ok(Ok(s)) => Ok(s),
        Ok(Err(es)) => Err(es.join("; ")),
        Err(p) => Err(format!("PANIC {} at {}", p.message, p.site())),
    }
}

pub fn judge_tokens(tokens: &[&str]) -> Result<&'static str, String> {
    let text = tokens.join(" ");
    let im = implementation(&text);
    if let Err(e) = &im {
        if e.starts_with("PANIC") {
            return Err(e.clone());
        }
    }
    match reference(tokens) {
        Verdict::Unspecified => Ok("unspecified"),
        Verdict::MustReject => match im {
            Err(_) => Ok("reject"),
            Ok(s) => {
                // classify: is it the lenient reading of the `|>` target?
                for tiers in [Tiers::Ebnf, Tiers::Book] {
                    let mut l = P::new(tokens, tiers);
                    l.lenient_pipe = true;
                    if l.parse_all() == Ok(s.clone()) {
                        return Err(format!("CLASS:postfix-apply-target is outside the documented grammar (`|>` must be followed by an identifier or `f(args)`) but was accepted as {s}"));
                    }
                }
                Err(format!("is outside the documented grammar but was accepted as {s}"))
            }
        },
        Verdict::MustParseAs(ts) => match im {
            Ok(s) if ts.contains(&s) => Ok(if ts.len() > 1 { "accept-either" } else { "accept" }),
            Ok(s) => Err(format!("parsed as {s}, the documented grammar gives {}", ts.join(" or "))),
            Err(e) => Err(format!("is in the documented grammar ({}) but was rejected: {e}", ts[0])),
        },
    }
}

#[derive(Default)]
struct Agg {
    n: u64,
    accept: u64,
    either: u64,
    reject: u64,
    unspec: u64,
    viol: Vec<(String, String)>,
    sample: Vec<String>,
}

fn sweep_tokens(rep: &mut Report, len: usize) {
    let k = TOKENS.len();
    let total = k.pow(len as u32);
    let chunk = 20_000usize;
    let jobs = total.div_ceil(chunk);
    let aggs: Vec<Agg> = par_map(jobs, || (), |_, j| {
        let mut a = Agg::default();
        let mut toks: Vec<&str> = vec![""; len];
        for idx in j * chunk..((j + 1) * chunk).min(total) {
            let mut r = idx;
            for p in (0..len).rev() {
                toks[p] = TOKENS[r % k];
                r /= k;
            }
            a.n += 1;
            match judge_tokens(&toks) {
                Ok("accept") => {
                    a.accept += 1;
                    if a.sample.is_empty() && idx % 7 == 3 {
                        a.sample.push(toks.join(" "));
                    }
                }
                Ok("accept-either") => a.either += 1,
                Ok("reject") => a.reject += 1,
                Ok(_) => a.unspec += 1,
                Err(e) => {
                    if a.viol.len() < 30 {
                        a.viol.push((toks.join(" "), e));
                    }
                }
            }
        }
        a
    });
    let mut tot = Agg::default();
    for a in aggs {
        tot.n += a.n;
        tot.accept += a.accept;
        tot.either += a.either;
        tot.reject += a.reject;
        tot.unspec += a.unspec;
        for (t, e) in a.viol {
            if e.starts_with("PANIC") {
                let site = e.split(" at ").last().unwrap_or("").to_string();
                rep.violation(format!("callsite:{site}"), format!("parsing `{t}`: {e}"), json!({"text": t}));
            } else if let Some(rest) = e.strip_prefix("CLASS:") {
                let class = rest.split(' ').next().unwrap_or("");
                rep.violation(format!("class:{class}"), format!("`{t}` {}", &rest[class.len() + 1..]), json!({"text": t}));
            } else {
                rep.violation(format!("input:{t}"), format!("`{t}` {e}"), json!({"text": t, "tokens": t.split(' ').collect::<Vec<_>>()}));
            }
        }
        for s in a.sample {
            if rep.samples.len() < 8 {
                rep.sample(json!({"tokens": s, "verdict": "must parse as the documented tree"}));
            }
        }
    }
    rep.states += tot.n;
    rep.transitions += tot.n;
    rep.evaluations += tot.n;
    rep.validated += tot.accept + tot.either + tot.reject;
    rep.nontrivial_extra += tot.accept + tot.either;
    rep.set(
        &format!("token_strings_len{len}"),
        json!({"strings": tot.n, "must_parse": tot.accept, "must_parse_either_tier_reading": tot.either, "must_reject": tot.reject, "unspecified": tot.unspec}),
    );
}

/// alternative spellings: substituting one must not change the tree
const SPELLINGS: [(&str, &[&str]); 8] = [
    ("*", &["×", "·", "⋅"]),
    ("/", &["÷"]),
    ("^", &["**"]),
    ("->", &["→", "➞", "to"]),
    ("<=", &["≤"]),
    (">=", &["≥"]),
    ("!=", &["≠"]),
    ("-", &["−"]),
];

fn sweep_spellings(rep: &mut Report, len: usize) {
    let alpha = ["2", "x", "(", ")", "-", "*", "/", "^", "->", "<=", ">=", "!=", "²", "+"];
    let k = alpha.len();
    let mut n = 0u64;
    let mut compared = 0u64;
    for l in 1..=len {
        for idx in 0..k.pow(l as u32) {
            let mut r = idx;
            let mut toks: Vec<&str> = vec![""; l];
            for p in (0..l).rev() {
                toks[p] = alpha[r % k];
                r /= k;
            }
            let canon = implementation(&toks.join(" "));
            n += 1;
            for p in 0..l {
                if let Some((_, alts)) = SPELLINGS.iter().find(|(c, _)| *c == toks[p]) {
                    for alt in *alts {
                        let mut t2 = toks.clone();
                        t2[p] = alt;
                        let got = implementation(&t2.join(" "));
                        compared += 1;
                        let same = |got: &Result<String, String>| match (&canon, got) {
                            (Ok(a), Ok(b)) => a == b,
                            (Err(_), Err(_)) => true,
                            _ => false,
                        };
                        if !same(&got) {
                            rep.violation(
                                format!("input:{}", t2.join(" ")),
                                format!("`{}` parses as {:?} but the canonical spelling `{}` as {:?}", t2.join(" "), got, toks.join(" "), canon),
                                json!({"text": t2.join(" "), "canonical": toks.join(" ")}),
                            );
                        }
                        // the same without whitespace around a symbolic operator
                        // (only next to operands and parentheses: glued to another symbolic operator the
                        // characters would form a different token, e.g. `*` `*` -> `**`, `-` `>` -> `->`)
                        let operandish = |t: &str| matches!(t, "2" | "x" | "(" | ")");
                        let neighbours_ok = (p == 0 || operandish(toks[p - 1])) && (p + 1 >= l || operandish(toks[p + 1]));
                        if neighbours_ok && !alt.chars().all(|c| c.is_ascii_alphabetic()) {
                            for variant in [*alt, toks[p]] {
                                let mut glued = String::new();
                                for (q, t) in toks.iter().enumerate() {
                                    let piece = if q == p { variant } else { t };
                                    if q > 0 && q != p && q != p + 1 {
                                        glued.push(' ');
                                    }
                                    glued.push_str(piece);
                                }
                                let g = implementation(&glued);
                                compared += 1;
                                if !same(&g) {
                                    rep.violation(
                                        format!("input:{glued}"),
                                        format!("`{glued}` (no whitespace around the operator) parses as {:?} but `{}` as {:?}", g, toks.join(" "), canon),
                                        json!({"text": glued, "canonical": toks.join(" ")}),
                                    );
                                }
                            }
                        }
                    }
                }
            }
        }
    }
    rep.states += n;
    rep.transitions += compared;
    rep.evaluations += compared;
    rep.validated += compared;
    rep.set("spelling_substitutions_compared", json!(compared));
}

/// documented number forms; None = not a literal; Some(None) = unspecified; Some(Some(v)) = value
fn literal_value(s: &str) -> Option<Option<f64>> {
    let b = s.as_bytes();
    if b.is_empty() {
        return None;
    }
    for (pfx, radix) in [("0x", 16u32), ("0o", 8), ("0b", 2)] {
        if let Some(d) = s.strip_prefix(pfx) {
            if d.is_empty() {
                return if s.len() == 2 { Some(None) } else { None };
            }
            if d.chars().all(|c| c.is_digit(radix)) {
                return Some(u128::from_str_radix(d, radix).ok().map(|v| v as f64));
            }
            if d.chars().all(|c| c.is_digit(radix) || c == '_') {
                return Some(None);
            }
            return None;
        }
    }
    // decimal: digits [. digits?] [e[+-]digits]  |  . digits [e..]
    let (mant, exp) = match s.find(|c| c == 'e' || c == 'E') {
        Some(i) => (&s[..i], Some(&s[i + 1..])),
        None => (s, None),
    };
    let digits_ok = |d: &str, allow_empty: bool| -> Option<bool> {
        // Some(true) = clean, Some(false) = odd underscores (unspecified), None = invalid
        if d.is_empty() {
            return if allow_empty { Some(true) } else { None };
        }
        if !d.chars().all(|c| c.is_ascii_digit() || c == '_') {
            return None;
        }
        if !d.chars().next().unwrap().is_ascii_digit() {
            return None;
        }
        Some(!(d.ends_with('_') || d.contains("__")))
    };
    let mut clean = true;
    let (ip, fp) = match mant.find('.') {
        Some(i) => (&mant[..i], Some(&mant[i + 1..])),
        None => (mant, None),
    };
    if ip.is_empty() {
        // ".234" form
        match fp {
            Some(f) if !f.is_empty() => clean &= digits_ok(f, false)?,
            _ => return None,
        }
    } else {
        clean &= digits_ok(ip, false)?;
        if let Some(f) = fp {
            clean &= digits_ok(f, true)?;
        }
    }
    if let Some(e) = exp {
        let e = e.strip_prefix('+').or_else(|| e.strip_prefix('-')).unwrap_or(e);
        clean &= digits_ok(e, false)?;
    }
    if !clean {
        return Some(None);
    }
    let t: String = s.chars().filter(|c| *c != '_').collect();
    Some(t.parse::<f64>().ok())
}

fn sweep_literals(rep: &mut Report, len: usize) {
    let alpha: Vec<char> = "019_.eE+-xobaf".chars().collect();
    let k = alpha.len();
    let mut ranges: Vec<(usize, usize, usize)> = vec![]; // (len, from, to)
    for l in 1..=len {
        let total = k.pow(l as u32);
        let mut a = 0;
        while a < total {
            ranges.push((l, a, (a + 50_000).min(total)));
            a += 50_000;
        }
    }
    struct LA {
        n: u64,
        lits: u64,
        unspec: u64,
        viol: Vec<(String, String)>,
    }
    let outs: Vec<LA> = par_map(ranges.len(), || (), |_, j| {
        let (l, from, to) = ranges[j];
        let mut la = LA { n: 0, lits: 0, unspec: 0, viol: vec![] };
        for idx in from..to {
            let mut r = idx;
            let mut s = vec![' '; l];
            for p in (0..l).rev() {
                s[p] = alpha[r % k];
                r /= k;
            }
            let s: String = s.into_iter().collect();
            la.n += 1;
            let im = implementation(&s);
            if let Err(e) = &im {
                if e.starts_with("PANIC") {
                    la.viol.push((s.clone(), e.clone()));
                    continue;
                }
            }
            let single_num = |r: &Result<String, String>| -> Option<f64> {
                let t = r.as_ref().ok()?;
                let inner = t.strip_prefix("(num ")?.strip_suffix(')')?;
                if inner.contains(' ') {
                    return None;
                }
                inner.parse::<f64>().ok()
            };
            match literal_value(&s) {
                Some(Some(v)) => {
                    la.lits += 1;
                    match single_num(&im) {
                        Some(x) if x == v || (x.is_nan() && v.is_nan()) => {}
                        _ => la.viol.push((s.clone(), format!("is the documented literal {v:e} but parses as {:?}", im))),
                    }
                }
                Some(None) => la.unspec += 1,
                None => {
                    // not a literal: must not be read as one number (a leading unary plus is dropped
                    // by the parser, so `+<literal>` legitimately yields a single number)
                    if !s.starts_with('+') {
                        if let Some(x) = single_num(&im) {
                            la.viol.push((s.clone(), format!("is not a documented number form but is read as the number {x:e}")));
                            continue;
                        }
                    }
                    // a maximal run of digits, `_` and `.` that contains a digit is one number token or
                    // an error: if the run is not a documented number form, the input must be rejected
                    // (never silently split into two numbers)
                    if im.is_ok() {
                        let cs: Vec<char> = s.chars().collect();
                        let mut i = 0;
                        while i < cs.len() {
                            if cs[i].is_ascii_digit() || cs[i] == '.' || cs[i] == '_' {
                                let mut j = i;
                                while j < cs.len() && (cs[j].is_ascii_digit() || cs[j] == '.' || cs[j] == '_') {
                                    j += 1;
                                }
                                let run: String = cs[i..j].iter().collect();
                                // runs after a letter are part of an identifier or a based literal, a leading
                                // `_` makes an identifier, a lone `.` is field access
                                let after_letter = i > 0 && cs[i - 1].is_ascii_alphabetic();
                                if !after_letter && !run.starts_with('_') && run.chars().any(|c| c.is_ascii_digit()) && literal_value(&run).is_none() {
                                    la.viol.push((s.clone(), format!("contains the run `{run}`, which is not a documented number form, but is accepted as {}", im.as_ref().unwrap())));
                                    break;
                                }
                                i = j;
                            } else {
                                i += 1;
                            }
                        }
                    }
                }
            }
        }
        la
    });
    let (mut n, mut lits, mut unspec) = (0, 0, 0);
    for la in outs {
        n += la.n;
        lits += la.lits;
        unspec += la.unspec;
        for (s, e) in la.viol.into_iter().take(20) {
            if e.starts_with("PANIC") {
                let site = e.split(" at ").last().unwrap_or("").to_string();
                rep.violation(format!("callsite:{site}"), format!("parsing `{s}`: {e}"), json!({"text": s}));
            } else {
                rep.violation(format!("literal:{s}"), format!("`{s}` {e}"), json!({"text": s, "literal": true}));
            }
        }
    }
    rep.states += n;
    rep.transitions += n;
    rep.evaluations += n;
    rep.validated += n - unspec;
    rep.nontrivial_extra += lits;
    rep.set("literal_strings", json!({"strings": n, "documented_literals": lits, "unspecified": unspec, "max_length": len}));
}


// ------------------------------------------------------------------------------------------------
// (d) expression trees: longer in-grammar inputs than the token sweep reaches

#[derive(Clone, Debug)]
pub enum T {
    Atom(&'static str),
    Un(&'static str, Box<T>),          // "neg" "not" "fact" "sq"
    Bin(&'static str, Box<T>, Box<T>), // operator token, "" = implicit multiplication
    Call(Vec<T>),
    Field(Box<T>),
    If(Box<T>, Box<T>, Box<T>),
    Pipe(Box<T>),
}

impl T {
    fn sexpr(&self) -> String {
        match self {
            T::Atom("2") => "(num 2.0)".into(),
            T::Atom(a) => format!("(id {a})"),
            T::Un("neg", a) => format!("(neg {})", a.sexpr()),
            T::Un("not", a) => format!("(not {})", a.sexpr()),
            T::Un("fact", a) => format!("(fact1 {})", a.sexpr()),
            T::Un(_, a) => format!("(^ {} (num 2.0))", a.sexpr()),
            T::Bin(op, a, b) => {
                let name = match *op {
                    "" => "*",
                    "per" => "/",
                    o => o,
                };
                format!("({name} {} {})", a.sexpr(), b.sexpr())
            }
            T::Call(args) => {
                let mut s = String::from("(call (id f)");
                for a in args {
                    s.push(' ');
                    s.push_str(&a.sexpr());
                }
                s.push(')');
                s
            }
            T::Field(a) => format!("(field {} b)", a.sexpr()),
            T::If(c, a, b) => format!("(if {} {} {})", c.sexpr(), a.sexpr(), b.sexpr()),
            T::Pipe(a) => format!("(call (id f) {})", a.sexpr()),
        }
    }
    /// fully parenthesised token list; every parenthesis pair gets an id so it can be removed
    fn tokens(&self, out: &mut Vec<(String, usize)>, next_id: &mut usize) {
        fn wrapped(t: &T, out: &mut Vec<(String, usize)>, next_id: &mut usize) {
            if matches!(t, T::Atom(_)) {
                t.tokens(out, next_id);
            } else {
                *next_id += 1;
                let id = *next_id;
                out.push(("(".into(), id));
                t.tokens(out, next_id);
                out.push((")".into(), id));
            }
        }
        match self {
            T::Atom(a) => out.push((a.to_string(), 0)),
            T::Un("neg", a) => {
                out.push(("-".into(), 0));
                wrapped(a, out, next_id)
            }
            T::Un("not", a) => {
                out.push(("!".into(), 0));
                wrapped(a, out, next_id)
            }
            T::Un("fact", a) => {
                wrapped(a, out, next_id);
                out.push(("!".into(), 0))
            }
            T::Un(_, a) => {
                wrapped(a, out, next_id);
                out.push(("²".into(), 0))
            }
            T::Bin(op, a, b) => {
                wrapped(a, out, next_id);
                if !op.is_empty() {
                    out.push((op.to_string(), 0));
                }
                wrapped(b, out, next_id)
            }
            T::Call(args) => {
                out.push(("f".into(), 0));
                out.push(("(".into(), 0));
                for (i, a) in args.iter().enumerate() {
                    if i > 0 {
                        out.push((",".into(), 0));
                    }
                    a.tokens(out, next_id);
                }
                out.push((")".into(), 0));
            }
            T::Field(a) => {
                wrapped(a, out, next_id);
                out.push((".b".into(), 0))
            }
            T::If(c, a, b) => {
                out.push(("if".into(), 0));
                wrapped(c, out, next_id);
                out.push(("then".into(), 0));
                wrapped(a, out, next_id);
                out.push(("else".into(), 0));
                wrapped(b, out, next_id)
            }
            T::Pipe(a) => {
                wrapped(a, out, next_id);
                out.push(("|>".into(), 0));
                out.push(("f".into(), 0))
            }
        }
    }
}

const BINOPS: [&str; 12] = ["+", "-", "*", "/", "per", "^", "->", "<", "==", "&&", "||", ""];
const UNOPS: [&str; 4] = ["neg", "not", "fact", "sq"];

fn grow(children: &[T], smaller: &[T], with_if: bool) -> Vec<T> {
    // nodes whose children come from `children` (at least one) and `smaller`
    let mut v = vec![];
    for a in children {
        for u in UNOPS {
            v.push(T::Un(u, Box::new(a.clone())));
        }
        v.push(T::Field(Box::new(a.clone())));
        v.push(T::Pipe(Box::new(a.clone())));
        v.push(T::Call(vec![a.clone()]));
        for b in smaller {
            for op in BINOPS {
                // juxtaposition with a parenthesised right operand is a call, not a product
                if !op.is_empty() || matches!(b, T::Atom(_)) {
                    v.push(T::Bin(op, Box::new(a.clone()), Box::new(b.clone())));
                }
                if !op.is_empty() || matches!(a, T::Atom(_)) {
                    v.push(T::Bin(op, Box::new(b.clone()), Box::new(a.clone())));
                }
            }
            v.push(T::Call(vec![a.clone(), b.clone()]));
            if with_if {
                for c in smaller {
                    v.push(T::If(Box::new(a.clone()), Box::new(b.clone()), Box::new(c.clone())));
                    v.push(T::If(Box::new(b.clone()), Box::new(a.clone()), Box::new(c.clone())));
                    v.push(T::If(Box::new(b.clone()), Box::new(c.clone()), Box::new(a.clone())));
                }
            }
        }
    }
    v
}

fn judge_tree(t: &T) -> (u64, u64, Vec<(String, String)>) {
    // returns (token lists judged, accepted ones, violations)
    let mut toks: Vec<(String, usize)> = vec![];
    let mut next_id = 0;
    t.tokens(&mut toks, &mut next_id);
    let want = t.sexpr();
    let mut judged = 0;
    let mut accepted = 0;
    let mut viol = vec![];
    let mut judge = |list: &[(String, usize)], judged: &mut u64, accepted: &mut u64, viol: &mut Vec<(String, String)>| -> Option<Verdict> {
        let strs: Vec<&str> = list.iter().map(|(s, _)| s.as_str()).collect();
        *judged += 1;
        match judge_tokens(&strs) {
            Ok(v) => {
                if v.starts_with("accept") {
                    *accepted += 1;
                }
            }
            Err(e) => viol.push((strs.join(" "), e)),
        }
        Some(reference(&strs))
    };
    // fully parenthesised: the reference itself must read the tree back (printer self-check)
    let full = judge(&toks, &mut judged, &mut accepted, &mut viol);
    match full {
        Some(Verdict::MustParseAs(ts)) if ts.contains(&want) => {}
        Some(Verdict::Unspecified) => return (judged, accepted, viol),
        other => {
            viol.push((toks.iter().map(|t| t.0.clone()).collect::<Vec<_>>().join(" "), format!("MACHINERY: reference reads the fully parenthesised rendering of {want} as {other:?}")));
            return (judged, accepted, viol);
        }
    }
    // each single pair removed, then greedily the minimal parenthesisation
    let mut current = toks.clone();
    for id in 1..=next_id {
        let without: Vec<(String, usize)> = toks.iter().filter(|(_, i)| *i != id).cloned().collect();
        judge(&without, &mut judged, &mut accepted, &mut viol);
        let trial: Vec<(String, usize)> = current.iter().filter(|(_, i)| *i != id).cloned().collect();
        let strs: Vec<&str> = trial.iter().map(|(s, _)| s.as_str()).collect();
        if let Verdict::MustParseAs(ts) = reference(&strs) {
            if ts.len() == 1 && ts[0] == want {
                current = trial;
            }
        }
    }
    if current.len() != toks.len() {
        judge(&current, &mut judged, &mut accepted, &mut viol);
    }
    (judged, accepted, viol)
}

fn sweep_trees(rep: &mut Report, thorough: bool) {
    let d0 = vec![T::Atom("x"), T::Atom("2")];
    let d1 = grow(&d0, &d0, true);
    let mut le1 = d0.clone();
    le1.extend(d1.iter().cloned());
    // depth 2: at least one depth-1 child; other children of depth <= 1 (ternaries only with atoms
    // in the quick tier to bound the product)
    let mut trees: Vec<T> = d1.clone();
    trees.extend(grow(&d1, &d0, true));
    if thorough {
        trees.extend(grow(&d1, &d1, false));
    } else {
        let d1_small: Vec<T> = d1.iter().step_by(3).cloned().collect();
        trees.extend(grow(&d1, &d1_small, false));
    }
    let n = trees.len();
    let chunk = 500;
    let jobs = n.div_ceil(chunk);
    let outs: Vec<(u64, u64, Vec<(String, String)>)> = par_map(jobs, || (), |_, j| {
        let mut tot = (0, 0, vec![]);
        for t in &trees[j * chunk..((j + 1) * chunk).min(n)] {
            let (a, b, v) = judge_tree(t);
            tot.0 += a;
            tot.1 += b;
            if tot.2.len() < 20 {
                tot.2.extend(v);
            }
        }
        tot
    });
    let (mut judged, mut accepted) = (0, 0);
    for (a, b, v) in outs {
        judged += a;
        accepted += b;
        for (t, e) in v {
            if let Some(m) = e.strip_prefix("MACHINERY: ") {
                rep.machinery_error(format!("`{t}`: {m}"));
            } else if e.starts_with("PANIC") {
                let site = e.split(" at ").last().unwrap_or("").to_string();
                rep.violation(format!("callsite:{site}"), format!("parsing `{t}`: {e}"), json!({"text": t}));
            } else if let Some(rest) = e.strip_prefix("CLASS:") {
                let class = rest.split(' ').next().unwrap_or("");
                rep.violation(format!("class:{class}"), format!("`{t}` {}", &rest[class.len() + 1..]), json!({"text": t}));
            } else {
                rep.violation(format!("input:{t}"), format!("`{t}` {e}"), json!({"text": t}));
            }
        }
    }
    rep.states += judged;
    rep.transitions += judged;
    rep.evaluations += judged;
    rep.validated += judged;
    rep.nontrivial_extra += accepted;
    rep.set("expression_trees", json!({"trees": n, "token_lists_judged": judged, "must_parse": accepted}));
}

pub fn check(rep: &mut Report) {
    let l = rep.tier.pick(5, 6);
    for len in 1..=l {
        sweep_tokens(rep, len);
    }
    sweep_trees(rep, rep.tier == Tier::Thorough);
    sweep_spellings(rep, rep.tier.pick(5, 6));
    sweep_literals(rep, rep.tier.pick(6, 7));
    rep.rule = "every token string of length <= L over a 25-token alphabet (operators of every tier, call, field access, conditionals, unicode exponents), joined by single spaces, parsed by the real parser (S-expression hook) and by a reference parser written from the documented EBNF and precedence table (three-valued verdict); every expression tree of depth <= 2 over all operator tiers rendered fully parenthesised, with each single pair of parentheses removed, and minimally parenthesised; every single spelling substitution in every string of length <= 5 (thorough 6) over a 14-token alphabet; every character string of length <= 6/7 over the literal alphabet 019_.eE+-xobaf; non-trivial = strings the documents accept".into();
    rep.assumptions = vec![
        "where the book's table (separate rows for / and *, - and +) and the EBNF (one left-associative tier) give different trees, either is accepted".into(),
        "unspecified by the documents: trailing commas, a second unicode exponent, underscores other than between digits, `0x` without digits".into(),
        "whitespace: tokens are separated by single spaces".into(),
    ];
}

pub fn replay(case: &J) -> i32 {
    let text = case["text"].as_str().unwrap_or("");
    println!("input: {text}");
    println!("implementation: {:?}", implementation(text));
    if case["literal"].as_bool().unwrap_or(false) {
        println!("documented literal value: {:?}", literal_value(text));
        return 2;
    }
    let toks: Vec<&str> = text.split(' ').collect();
    println!("reference: {:?}", reference(&toks));
    match judge_tokens(&toks) {
        Ok(v) => {
            println!("{v}: no violation on this tree");
            0
        }
        Err(e) => {
            println!("VIOLATION reproduced: {e}");
            1
        }
    }
}
