//! C24 — every documented standard-library example runs (complete finite space).

use crate::common::*;
use numbat::resolver::CodeSource;
use serde_json::{Value as J, json};

struct Ex {
    function: String,
    module: String,
    code: String,
}

fn collect() -> Vec<Ex> {
    let ctx = all_ctx();
    let mut v = vec![];
    for f in ctx.functions() {
        let module = match &f.code_source {
            CodeSource::Module(p, _) => p.to_string(),
            _ => String::new(),
        };
        for (code, _desc) in &f.examples {
            v.push(Ex {
                function: f.fn_name.to_string(),
                module: module.clone(),
                code: code.to_string(),
            });
        }
    }
    v.sort_by(|a, b| (a.function.clone(), a.code.clone()).cmp(&(b.function.clone(), b.code.clone())));
    v
}

/// number of `@example(` decorators in the module sources (cross-check that none is dropped)
fn count_in_sources() -> usize {
    fn walk(dir: &std::path::Path, n: &mut usize) {
        if let Ok(rd) = std::fs::read_dir(dir) {
            for e in rd.flatten() {
                let p = e.path();
                if p.is_dir() {
                    walk(&p, n);
                } else if p.extension().map(|x| x == "nbt").unwrap_or(false) {
                    if let Ok(t) = std::fs::read_to_string(&p) {
                        *n += t.lines().filter(|l| l.trim_start().starts_with("@example(")).count();
                    }
                }
            }
        }
    }
    let mut n = 0;
    walk(std::path::Path::new("/repo/numbat/modules"), &mut n);
    n
}

fn run_example(ex: &Ex) -> Result<String, String> {
    let mut ctx = prelude_currencies_ctx();
    let imported = ctx
        .resolver()
        .imported_modules
        .iter()
        .any(|m| m.to_string() == ex.module);
    if !imported && !ex.module.is_empty() {
        let r = run_as(&mut ctx, &format!("use {}", ex.module), CodeSource::Internal);
        if !r.is_ok() {
            return Err(format!("`use {}` fails: {}", ex.module, r.err_string().unwrap_or_default()));
        }
    }
    let r = run_as(&mut ctx, &ex.code, CodeSource::Internal);
    match &r.outcome {
        Outcome::Ok(_) => Ok(r.fingerprint()),
        Outcome::Err(e) => Err(format!("{} error: {e}", error_stage(e))),
        Outcome::Panic(p) => Err(format!("PANIC {} at {}", p.message, p.site())),
    }
}

pub fn check(rep: &mut Report) {
    let exs = collect();
    let in_sources = count_in_sources();
    rep.set("examples_in_metadata", json!(exs.len()));
    rep.set("example_decorators_in_sources", json!(in_sources));
    if exs.len() != in_sources {
        rep.violation(
            "count",
            format!(
                "the module sources contain {in_sources} @example decorators but the function metadata exposes {} examples",
                exs.len()
            ),
            json!({"kind": "count"}),
        );
    }
    let outs: Vec<Result<String, String>> = par_map(exs.len(), || (), |_, i| {
        if exs[i].code.contains("args()") {
            Ok("excluded: depends on command-line arguments".into())
        } else {
            run_example(&exs[i])
        }
    });
    rep.states = exs.len() as u64;
    let mut excluded = 0;
    for (i, o) in outs.into_iter().enumerate() {
        rep.transitions += 1;
        rep.evaluations += 1;
        match o {
            Ok(s) => {
                if s.starts_with("excluded") {
                    excluded += 1;
                } else {
                    rep.validated += 1;
                    rep.nontrivial_case(&format!("{}|{}", exs[i].function, exs[i].code));
                    rep.outcome(&s);
                }
                if i % 23 == 0 {
                    rep.sample(json!({"function": exs[i].function, "module": exs[i].module, "example": exs[i].code, "outcome": s}));
                }
            }
            Err(e) => rep.violation(
                format!("example:{}|{}", exs[i].function, exs[i].code),
                format!("example `{}` of function {} ({}): {e}", exs[i].code, exs[i].function, exs[i].module),
                json!({"function": exs[i].function, "module": exs[i].module, "code": exs[i].code}),
            ),
        }
    }
    rep.set("excluded_by_rule", json!(excluded));
    rep.rule = "the complete set of (function, @example) pairs of the standard library (`use all`), each run in a clone of a prelude + currencies session after importing the defining module if necessary, printing discarded; excluded by rule: example text containing `args()`; non-trivial = examples actually executed".into();
    rep.assumptions = vec![
        "currency units use the built-in test exchange rates; TZ=UTC".into(),
        "an example 'runs' iff interpretation returns Ok (results are not compared with documentation text)".into(),
    ];
}

pub fn replay(case: &J) -> i32 {
    let ex = Ex {
        function: case["function"].as_str().unwrap_or("").into(),
        module: case["module"].as_str().unwrap_or("").into(),
        code: case["code"].as_str().unwrap_or("").into(),
    };
    match run_example(&ex) {
        Ok(s) => {
            println!("{} => {s}\nno violation on this tree", ex.code);
            0
        }
        Err(e) => {
            println!("VIOLATION reproduced: {e}");
            1
        }
    }
}
