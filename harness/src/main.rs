mod common;
mod obs;
mod props;
mod uexpr;
mod units;

use common::Tier;

fn usage() -> ! {
    eprintln!("usage: nbmc <ID> --tier quick|thorough | nbmc --replay <path> | nbmc --child <kind> <file>");
    std::process::exit(2);
}

fn main() {
    common::init_process();
    let args: Vec<String> = std::env::args().skip(1).collect();
    if args.is_empty() {
        usage();
    }
    if args[0] == "--replay" {
        let path = args.get(1).unwrap_or_else(|| usage());
        std::process::exit(props::replay(path));
    }
    if args[0] == "--child" {
        std::process::exit(props::child(&args[1..]));
    }
    let id = args[0].to_uppercase();
    let mut tier = match std::env::var("VERIF_TIER").ok().as_deref() {
        Some("thorough") => Tier::Thorough,
        _ => Tier::Quick,
    };
    let mut i = 1;
    while i < args.len() {
        match args[i].as_str() {
            "--tier" => {
                tier = match args.get(i + 1).map(|s| s.as_str()) {
                    Some("quick") => Tier::Quick,
                    Some("thorough") => Tier::Thorough,
                    _ => usage(),
                };
                i += 2;
            }
            "quick" => {
                tier = Tier::Quick;
                i += 1;
            }
            "thorough" => {
                tier = Tier::Thorough;
                i += 1;
            }
            _ => usage(),
        }
    }
    let code = props::run_check(&id, tier);
    std::process::exit(code);
}
