//! C02 — static checking accepts exactly the dimensionally consistent programs.

use crate::common::*;
use crate::obs::static_obs;
use crate::props::dimprog::*;
use numbat::NumbatError;
use serde_json::{Value as J, json};

pub struct Case {
    pub code: String,
    /// reference verdict for the program
    pub expect: Result<RT, Reject>,
    pub family: &'static str,
}

pub const ANNOTATIONS: [(&str, &[(&str, i128)]); 6] = [
    ("Length", &[("Length", 1)]),
    ("Time", &[("Time", 1)]),
    ("Velocity", &[("Length", 1), ("Time", -1)]),
    ("Scalar", &[]),
    ("Area", &[("Length", 2)]),
    ("Energy", &[("Length", 2), ("Mass", 1), ("Time", -2)]),
];

pub fn ann_dv(a: &[(&str, i128)]) -> DV {
    let mut d = DV::new();
    for (n, e) in a {
        d.insert(n.to_string(), (*e, 1));
    }
    d
}

/// function bodies over one parameter `q`: (body source, required parameter dimension, result)
pub fn bodies(w: &World) -> Vec<(&'static str, Option<DV>, Box<dyn Fn(&DV) -> DV + Sync>)> {
    let l = w.unit_dims["m"].clone();
    let t = w.unit_dims["s"].clone();
    let (l2, t2, l3, t3) = (l.clone(), t.clone(), l.clone(), t.clone());
    vec![
        ("q * q", None, Box::new(|d: &DV| dv_pow(d, 2, 1))),
        ("q / s", None, Box::new(move |d: &DV| dv_mul(d, &dv_pow(&t2, -1, 1)))),
        ("q + 2 m", Some(l.clone()), Box::new(move |_d: &DV| l2.clone())),
        ("sqrt(q) * q", None, Box::new(|d: &DV| dv_pow(d, 3, 2))),
        ("q^2 / (3 m)", None, Box::new(move |d: &DV| dv_mul(&dv_pow(d, 2, 1), &dv_pow(&l3, -1, 1)))),
        ("if q < 2 s then q else 1 s", Some(t.clone()), Box::new(move |_d: &DV| t3.clone())),
        ("q + q", None, Box::new(|d: &DV| d.clone())),
        ("(2 m) / q", None, Box::new({
            let l = l.clone();
            move |d: &DV| dv_mul(&l, &dv_pow(d, -1, 1))
        })),
        ("same2(q, q) * dbl(q)", None, Box::new(|d: &DV| dv_pow(d, 2, 1))),
    ]
}

pub fn build_cases(w: &World, thorough: bool) -> Vec<Case> {
    let inf = DimInfer { unit_dims: &w.unit_dims, vars: w.vars.clone() };
    let at = atoms(thorough);
    let l1 = level1(&at);
    let at2: Vec<X> = if thorough { at.clone() } else { at.iter().take(6).cloned().collect() };
    let l2 = level2(&l1, &at2);
    let mut cases = vec![];
    for e in l1.iter() {
        cases.push(Case { code: e.render(), expect: inf.infer(e), family: "expression" });
    }
    for e in l2.iter() {
        cases.push(Case { code: e.render(), expect: inf.infer(e), family: "expression (depth 2)" });
    }
    // composite constant exponents (exact rational arithmetic in the reference)
    {
        fn norm((n, d): (i128, i128)) -> (i128, i128) {
            let g = crate::units::gcd(n.abs(), d.abs()).max(1);
            let (n, d) = (n / g, d / g);
            if d < 0 { (-n, -d) } else { (n, d) }
        }
        let ex_atoms: Vec<(String, (i128, i128))> = vec![("2".into(), (2, 1)), ("3".into(), (3, 1)), ("(-1)".into(), (-1, 1)), ("(1/3)".into(), (1, 3)), ("(1/2)".into(), (1, 2)), ("5".into(), (5, 1))];
        let mut exps: Vec<(String, (i128, i128))> = vec![];
        for (ta, a) in &ex_atoms {
            exps.push((format!("(-{ta})"), norm((-a.0, a.1))));
            for (tb, b) in &ex_atoms {
                exps.push((format!("({ta} + {tb})"), norm((a.0 * b.1 + b.0 * a.1, a.1 * b.1))));
                exps.push((format!("({ta} - {tb})"), norm((a.0 * b.1 - b.0 * a.1, a.1 * b.1))));
                exps.push((format!("({ta} * {tb})"), norm((a.0 * b.0, a.1 * b.1))));
                if b.0 != 0 {
                    exps.push((format!("({ta} / {tb})"), norm((a.0 * b.1, a.1 * b.0))));
                }
            }
        }
        // powers inside the exponent: the constant evaluator supports non-negative integer exponents;
        // a negative or fractional inner exponent is outside what it evaluates (excluded, see below)
        let mut unsupported: Vec<String> = vec![];
        for (ta, a) in &ex_atoms {
            for (tb, b) in &ex_atoms {
                if b.1 == 1 && b.0 >= 0 {
                    let k = b.0 as u32;
                    exps.push((format!("({ta} ^ {tb})"), norm((a.0.pow(k), a.1.pow(k)))));
                } else {
                    unsupported.push(format!("({ta} ^ {tb})"));
                }
            }
        }
        let d1 = exps.clone();
        // quick tier: second level only over first-level expressions built from the atoms 2, 3, -1
        for (ta, a) in d1.iter().filter(|(t, _)| thorough || !(t.contains("1/3") || t.contains("1/2") || t.contains('5'))) {
            for (tb, b) in &ex_atoms {
                exps.push((format!("({ta} - {tb})"), norm((a.0 * b.1 - b.0 * a.1, a.1 * b.1))));
                exps.push((format!("({tb} - {ta})"), norm((b.0 * a.1 - a.0 * b.1, a.1 * b.1))));
                exps.push((format!("({ta} * {tb})"), norm((a.0 * b.0, a.1 * b.1))));
            }
        }
        for base in [X::Unit("m"), X::Unit("N"), X::Bin('/', Box::new(X::Unit("km")), Box::new(X::Unit("hour")))] {
            for (t, r) in &exps {
                let text: &'static str = Box::leak(t.clone().into_boxed_str());
                let e = X::Pow(Box::new(base.clone()), text, *r);
                cases.push(Case { code: e.render(), expect: inf.infer(&e), family: "constant exponent expression" });
                // ... and where the result type is pinned by an addition
                let sum = X::Bin('+', Box::new(e.clone()), Box::new(X::Pow(Box::new(base.clone()), "1", (1, 1))));
                cases.push(Case { code: sum.render(), expect: inf.infer(&sum), family: "constant exponent expression" });
                // ... and by a scalar (consistent exactly when the exponent evaluates to 0)
                let sum0 = X::Bin('+', Box::new(e.clone()), Box::new(X::Lit("2")));
                cases.push(Case { code: sum0.render(), expect: inf.infer(&sum0), family: "constant exponent expression" });
            }
            for t in &unsupported {
                // whether such an input is accepted is not specified; if it is, C01 judges its run
                cases.push(Case { code: format!("({})^{t}", base.render()), expect: Err(Reject::Excluded("inner exponent the constant evaluator does not support".into())), family: "constant exponent expression" });
            }
        }
    }
    // annotated definitions
    for e in &l1 {
        let te = inf.infer(e);
        for (name, a) in ANNOTATIONS {
            let adv = ann_dv(a);
            let expect = match &te {
                Ok(t) => match t {
                    RT::List(_) => Err(Reject::Excluded("list".into())),
                    t => unify_pub(t, &RT::Dim(adv.clone()), &format!("annotation {name}")),
                },
                Err(Reject::Mismatch(m)) => Err(Reject::Mismatch(m.clone())),
                Err(Reject::Excluded(m)) => Err(Reject::Excluded(m.clone())),
            };
            cases.push(Case { code: format!("let va: {name} = {}\nva", e.render()), expect, family: "annotated let" });
        }
    }
    // unannotated (inferred, generic) functions and their call sites
    let bs = bodies(w);
    for (bi, (body, req, res)) in bs.iter().enumerate() {
        for a in &at {
            let ta = inf.infer(a);
            let expect = match ta {
                Ok(RT::Dim(d)) => match req {
                    Some(r) if *r != d => Err(Reject::Mismatch(format!("argument of tf{bi}: {} vs {}", dv_str(&d), dv_str(r)))),
                    _ => Ok(RT::Dim(res(&d))),
                },
                Ok(_) => Err(Reject::Excluded("zero/list argument".into())),
                Err(Reject::Mismatch(m)) => Err(Reject::Mismatch(m)),
                Err(Reject::Excluded(m)) => Err(Reject::Excluded(m)),
            };
            cases.push(Case { code: format!("fn tf{bi}(q) = {body}\ntf{bi}({})", a.render()), expect, family: "inferred function call" });
        }
        // annotated parameter and return type
        for (pn, pa) in ANNOTATIONS.iter().take(3) {
            for (rn, ra) in ANNOTATIONS {
                let pd = ann_dv(pa);
                let expect = match req {
                    Some(r) if *r != pd => Err(Reject::Mismatch(format!("parameter annotation {pn} vs body"))),
                    _ => {
                        let out = res(&pd);
                        if out == ann_dv(ra) {
                            Ok(RT::Dim(out))
                        } else {
                            Err(Reject::Mismatch(format!("return annotation {rn} vs {}", dv_str(&out))))
                        }
                    }
                };
                let arg = match *pn {
                    "Length" => "3 m",
                    "Time" => "3 s",
                    _ => "3 m/s",
                };
                cases.push(Case { code: format!("fn ta{bi}(q: {pn}) -> {rn} = {body}\nta{bi}({arg})", ), expect, family: "annotated function" });
            }
        }
    }
    // the last result: `E1 ⏎ ans + E2` (and `_`, comparison, list element) is consistent exactly when
    // `E1 + E2` is; first statements through plain arithmetic and through generic calls
    for a in &at {
        let firsts = [
            a.clone(),
            X::Call("dbl", vec![a.clone()]),
            X::Call("abs", vec![a.clone()]),
            X::Call("sqrt", vec![X::Call("sq", vec![a.clone()])]),
            X::Call("same2", vec![a.clone(), a.clone()]),
            X::Bin('*', Box::new(a.clone()), Box::new(X::Lit("2"))),
        ];
        for b in &at {
            for f in &firsts {
                let sum = X::Bin('+', Box::new(f.clone()), Box::new(b.clone()));
                cases.push(Case { code: format!("{}\nans + {}", f.render(), b.render()), expect: inf.infer(&sum), family: "last result" });
                cases.push(Case { code: format!("{}\n{} - _", f.render(), b.render()), expect: inf.infer(&sum), family: "last result" });
                let cmp = X::Bin('>', Box::new(f.clone()), Box::new(b.clone()));
                cases.push(Case { code: format!("{}\nans > {}", f.render(), b.render()), expect: inf.infer(&cmp), family: "last result" });
            }
        }
    }
    // unit and dimension definitions
    for e in l1.iter().take(if thorough { l1.len() } else { 400 }) {
        let te = inf.infer(e);
        let quantity = |t: &Result<RT, Reject>| -> Result<RT, Reject> {
            match t {
                Ok(RT::Dim(d)) => Ok(RT::Dim(d.clone())),
                Ok(_) => Err(Reject::Excluded("zero/list".into())),
                Err(Reject::Mismatch(m)) => Err(Reject::Mismatch(m.clone())),
                Err(Reject::Excluded(m)) => Err(Reject::Excluded(m.clone())),
            }
        };
        cases.push(Case { code: format!("unit uq = {}\n2 uq", e.render()), expect: quantity(&te), family: "unit definition" });
        let expect = match quantity(&te) {
            Ok(t) => unify_pub(&t, &RT::Dim(ann_dv(ANNOTATIONS[2].1)), "unit annotation Velocity"),
            e => e,
        };
        cases.push(Case { code: format!("unit uv: Velocity = {}\n2 uv", e.render()), expect, family: "annotated unit definition" });
        let expect = match quantity(&te) {
            Ok(t) => unify_pub(&t, &RT::Dim(ann_dv(&[("Length", 1), ("Time", -2)])), "annotation Dq = Length / Time^2"),
            e => e,
        };
        cases.push(Case { code: format!("dimension Dq = Length / Time^2\nlet vq: Dq = {}\nvq", e.render()), expect, family: "derived dimension" });
    }
    cases
}

pub fn unify_pub(a: &RT, b: &RT, what: &str) -> Result<RT, Reject> {
    match (a, b) {
        (RT::Any, x) | (x, RT::Any) => Ok(x.clone()),
        (RT::Dim(x), RT::Dim(y)) => {
            if x == y { Ok(RT::Dim(x.clone())) } else { Err(Reject::Mismatch(format!("{what}: {} vs {}", dv_str(x), dv_str(y)))) }
        }
        _ => Err(Reject::Excluded("list".into())),
    }
}

pub fn judge(w: &World, c: &Case) -> Result<&'static str, String> {
    let mut ctx = w.ctx.clone();
    let r = run_typed(&mut ctx, &c.code);
    if let Outcome::Panic(p) = &r.outcome {
        return Err(format!("PANIC {} at {}", p.message, p.site()));
    }
    match &c.expect {
        Err(Reject::Excluded(_)) => Ok("excluded"),
        Err(Reject::Mismatch(why)) => match &r.outcome {
            Outcome::Err(e) if is_type_error(e) => Ok("rejected"),
            Outcome::Err(e) => Err(format!("is dimensionally inconsistent ({why}) but fails with a {} error instead of a type error: {e}", error_stage(e))),
            _ => Err(format!("is dimensionally inconsistent ({why}) but was accepted")),
        },
        Ok(t) => match &r.outcome {
            Outcome::Err(e) if is_type_error(e) => Err(format!("is dimensionally consistent ({}) but was rejected: {e}", match t { RT::Dim(d) => dv_str(d), o => format!("{o:?}") })),
            Outcome::Err(e) if matches!(**e, NumbatError::RuntimeError(_)) => Ok("accepted (run-time error)"),
            Outcome::Err(e) => Err(format!("fails with a {} error: {e}", error_stage(e))),
            _ => {
                if let RT::Dim(d) = t {
                    match &r.static_dv {
                        Some(s) if s == d => Ok("accepted"),
                        Some(s) => Err(format!("has reported type {} but dimensional analysis gives {}", dv_str(s), dv_str(d))),
                        None => Ok("accepted (type not a closed dimension)"),
                    }
                } else {
                    Ok("accepted")
                }
            }
        },
    }
}

pub fn check(rep: &mut Report) {
    let w = match World::build() {
        Ok(w) => w,
        Err(e) => {
            rep.machinery_error(e);
            return;
        }
    };
    let cases = build_cases(&w, rep.tier == Tier::Thorough);
    let n = cases.len();
    // World holds a Context: share read-only
    let outs: Vec<Result<&'static str, String>> = par_map(n, || (), |_, i| judge(&w, &cases[i]));
    rep.states = n as u64;
    let mut counts: std::collections::BTreeMap<String, u64> = Default::default();
    let mut rejected_cases: Vec<usize> = vec![];
    for (i, o) in outs.into_iter().enumerate() {
        rep.transitions += 1;
        rep.evaluations += 1;
        match o {
            Ok(v) => {
                *counts.entry(format!("{}: {v}", cases[i].family)).or_default() += 1;
                if v != "excluded" {
                    rep.validated += 1;
                }
                if v == "rejected" {
                    rep.nontrivial_case(&cases[i].code);
                    rejected_cases.push(i);
                }
                rep.outcome(&format!("{}{v}", cases[i].family));
                if i % 4007 == 11 {
                    rep.sample(json!({"program": cases[i].code, "reference": format!("{:?}", cases[i].expect).chars().take(120).collect::<String>(), "verdict": v}));
                }
            }
            Err(e) => {
                if e.starts_with("PANIC") {
                    let site = e.split(" at ").last().unwrap_or("").to_string();
                    rep.violation(format!("callsite:{site}"), format!("`{}`: {e}", cases[i].code.replace('\n', "⏎")), json!({"code": cases[i].code}));
                } else {
                    rep.violation(format!("input:{}", cases[i].code.replace('\n', "⏎")), format!("`{}` {e}", cases[i].code.replace('\n', "⏎")), json!({"code": cases[i].code}));
                }
            }
        }
    }
    rep.set("verdicts_per_family", json!(counts));

    // a rejected input is rejected as a whole: nothing printed, nothing defined
    let obs0 = static_obs(&w.ctx);
    // exhaustive over: every rejected depth-1 expression, every rejected definition form (functions,
    // units, derived dimensions) and the rejected annotated lets of single-token expressions; the
    // thorough tier adds all rejected annotated lets and the rejected constant-exponent expressions
    let thorough = rep.tier == Tier::Thorough;
    let subset: Vec<usize> = rejected_cases
        .iter()
        .copied()
        .filter(|&i| match cases[i].family {
            "expression (depth 2)" => false,
            "annotated let" => thorough || !cases[i].code.lines().next().unwrap_or("").split(" = ").nth(1).unwrap_or("").contains([' ', '(']),
            "constant exponent expression" => thorough,
            _ => true,
        })
        .collect();
    let probe_names = ["ok_one", "ok_two", "va", "uq", "ok_one + 1 m", "2 uv", "vq"];
    let probes0: Vec<String> = probe_names
        .iter()
        .map(|p| {
            let mut c = w.ctx.clone();
            run(&mut c, p).fingerprint()
        })
        .collect();
    let atom_outs: Vec<Result<(), String>> = par_map(subset.len(), || (), |_, k| {
        let bad = &cases[subset[k]].code;
        for pos in 0..3 {
            let mut lines = vec!["print(\"marker one\")".to_string(), "let ok_one = 2 m".to_string(), "print(\"marker two\")".to_string()];
            lines.insert(pos + 1, bad.clone());
            lines.push("let ok_two = 3 s".into());
            let input = lines.join("\n");
            let mut ctx = w.ctx.clone();
            let r = run_typed(&mut ctx, &input);
            match &r.outcome {
                Outcome::Err(e) if is_type_error(e) => {}
                Outcome::Panic(p) => return Err(format!("PANIC {} at {}", p.message, p.site())),
                _ => return Err(format!("input with the inconsistent statement at position {} is not rejected with a type error", pos + 1)),
            }
            if !r.printed.is_empty() {
                return Err(format!("the rejected input printed {:?} (bad statement at position {})", r.printed, pos + 1));
            }
            if static_obs(&ctx) != obs0 {
                return Err(format!("the rejected input changed the session: {}", crate::obs::first_diff(&obs0, &static_obs(&ctx))));
            }
            // every name the rejected input would have defined must be exactly as unknown as before
            // (to the type checker, too: an `is_ok` test would take a crash for "not defined")
            for (name, before) in probe_names.iter().zip(probes0.iter()) {
                let mut c2 = ctx.clone();
                let after = run(&mut c2, name).fingerprint();
                if &after != before {
                    return Err(format!("after the rejected input `{name}` gives {after} (before: {before})"));
                }
            }
        }
        Ok(())
    });
    for (k, o) in atom_outs.into_iter().enumerate() {
        rep.states += 1;
        rep.transitions += 3;
        rep.evaluations += 3;
        match o {
            Ok(()) => rep.validated += 1,
            Err(e) => {
                let code = &cases[subset[k]].code;
                if e.starts_with("PANIC") {
                    let site = e.split(" at ").last().unwrap_or("").to_string();
                    rep.violation(format!("callsite:{site}"), format!("atomicity of `{}`: {e}", code.replace('\n', "⏎")), json!({"code": code, "atomicity": true}));
                } else {
                    rep.violation(format!("atomicity:{}", code.replace('\n', "⏎")), format!("multi-statement input around `{}`: {e}", code.replace('\n', "⏎")), json!({"code": code, "atomicity": true}));
                }
            }
        }
    }
    rep.set("atomicity_cases", json!(subset.len() * 3));
    rep.rule = "every expression of depth <= 2 over a collision alphabet of units/variables with + - * / -> ^(rational) unary minus, conditionals, lists and calls of inferred, annotated and generic functions, WITHOUT a well-typedness filter (so every mis-dimensioned variant is present); the same expressions under 6 annotations, as unit and derived-dimension definitions, inside 9 function bodies with every call argument and every (parameter, return) annotation; uses of the last result (ans, _) after six first-statement shapes with every atom; every rejected depth-1 expression and definition form embedded at every position of a multi-statement input (nothing printed, session observation unchanged, every name the input would define exactly as unknown as before); reference = independent dimensional analysis from the units' run-time definitions; non-trivial = programs the reference rejects".into();
    rep.assumptions = vec![
        "inputs outside the property's quantifier (polymorphic zero in products/generic arguments, lists as quantities) are classified by the reference and not judged".into(),
        "generic functions are compared at call sites with concrete argument dimensions".into(),
        "rational exponents only (decimal exponents are C01's subject)".into(),
    ];
}

pub fn replay(case: &J) -> i32 {
    let w = World::build().unwrap();
    let code = case["code"].as_str().unwrap_or("");
    let mut ctx = w.ctx.clone();
    let r = run_typed(&mut ctx, code);
    println!("{code}\n => {:?} static={:?} other={:?}", match &r.outcome { Outcome::Ok(v) => format!("ok {:?}", v.as_ref().map(|v| v.to_string())), Outcome::Err(e) => format!("err {e}"), Outcome::Panic(p) => format!("panic {}", p.message) }, r.static_dv.as_ref().map(dv_str), r.static_other);
    2
}
