//! C14 — displayed numbers read back as the value they show.
//!
//! Exhaustive sweeps over structured value sets (all k-digit decimals over a range of exponents,
//! integer windows, structured bit patterns) × a grid of format settings, through the real
//! `Value::pretty_print_with`.

use crate::common::*;
use numbat::FormatOptions;
use serde_json::{Value as J, json};

pub fn show(x: f64, opts: &FormatOptions) -> Result<String, PanicInfo> {
    guarded(|| numbat::verif::scalar_value(x).pretty_print_with(opts).to_string())
}

fn opts(sep: &str, threshold: usize, sig: usize) -> FormatOptions {
    let mut o = FormatOptions::default();
    o.digit_separator = sep.to_string();
    o.digit_grouping_threshold = threshold;
    o.significant_digits = sig;
    o
}

/// documented literal forms (number-notation.md): integer (with `_` between digits),
/// floating point, scientific; optional leading minus (unary negation of the literal)
fn is_decimal_literal(t: &str) -> bool {
    let t = t.strip_prefix('-').unwrap_or(t);
    let (mant, exp) = match t.split_once('e') {
        Some((m, e)) => (m, Some(e)),
        None => (t, None),
    };
    if let Some(e) = exp {
        let e = e.strip_prefix('+').or_else(|| e.strip_prefix('-')).unwrap_or(e);
        if e.is_empty() || !e.bytes().all(|b| b.is_ascii_digit()) {
            return false;
        }
    }
    let (ip, fp) = match mant.split_once('.') {
        Some((i, f)) => (i, Some(f)),
        None => (mant, None),
    };
    let digits_with_underscores = |s: &str| -> bool {
        !s.is_empty()
            && s.bytes().all(|b| b.is_ascii_digit() || b == b'_')
            && !s.starts_with('_')
            && !s.ends_with('_')
            && !s.contains("__")
    };
    if !digits_with_underscores(ip) {
        return false;
    }
    if let Some(f) = fp {
        if !digits_with_underscores(f) {
            return false;
        }
    }
    true
}

fn sig_digits_shown(t: &str) -> usize {
    let t = t.strip_prefix('-').unwrap_or(t);
    let mant = t.split('e').next().unwrap();
    let ds: String = mant.chars().filter(|c| c.is_ascii_digit()).collect();
    let stripped = ds.trim_start_matches('0');
    stripped.len().max(1)
}

/// decimal rounding of a digit string (no dot) to n digits; returns (digits, carry)
fn round_digits(d: &str, n: usize, half_even: bool) -> (String, bool) {
    let b: Vec<u8> = d.bytes().map(|c| c - b'0').collect();
    if b.len() <= n {
        return (d.to_string(), false);
    }
    let mut keep: Vec<u8> = b[..n].to_vec();
    let next = b[n];
    let rest_nonzero = b[n + 1..].iter().any(|x| *x != 0);
    let up = if next > 5 || (next == 5 && rest_nonzero) {
        true
    } else if next == 5 {
        if half_even { keep[n - 1] % 2 == 1 } else { true }
    } else {
        false
    };
    let mut carry = false;
    if up {
        let mut i = n;
        loop {
            if i == 0 {
                carry = true;
                break;
            }
            i -= 1;
            if keep[i] == 9 {
                keep[i] = 0;
            } else {
                keep[i] += 1;
                break;
            }
        }
    }
    let mut s: String = keep.iter().map(|x| (x + b'0') as char).collect();
    if carry {
        s.insert(0, '1');
        s.pop();
    }
    (s, carry)
}

/// the admissible readings of "x rounded to n significant digits"
fn rounded_candidates(x: f64, n: usize) -> Vec<f64> {
    let mut v = vec![];
    let n = n.clamp(1, 40);
    // (A) exact, correctly rounded decimal
    if let Ok(a) = format!("{:.*e}", n - 1, x).parse::<f64>() {
        v.push(a);
    }
    // (B) rounding of the shortest round-trip digits
    let s = format!("{:e}", x.abs());
    let (m, e) = s.split_once('e').unwrap();
    let e: i32 = e.parse().unwrap();
    let d: String = m.chars().filter(|c| c.is_ascii_digit()).collect();
    for half_even in [false, true] {
        let (r, carry) = round_digits(&d, n, half_even);
        let ee = if carry { e + 1 } else { e };
        let txt = format!("{}{}.{}e{}", if x < 0.0 { "-" } else { "" }, &r[..1], &r[1..], ee);
        let txt = txt.replace(".e", ".0e");
        if let Ok(b) = txt.parse::<f64>() {
            v.push(b);
        }
    }
    v
}

/// Judge one (value, options, text) triple.
pub fn judge(x: f64, o: &FormatOptions, text: &str) -> Result<(), String> {
    if x.is_nan() {
        return if text == "NaN" { Ok(()) } else { Err(format!("NaN is displayed as `{text}`")) };
    }
    if x.is_infinite() {
        let want = if x > 0.0 { "inf" } else { "-inf" };
        return if text == want { Ok(()) } else { Err(format!("{want} is displayed as `{text}`")) };
    }
    let t = if o.digit_separator.is_empty() {
        text.to_string()
    } else {
        text.replace(&o.digit_separator, "")
    };
    if !is_decimal_literal(&t) {
        return Err(format!("`{text}` (separator removed: `{t}`) is not a numeric literal"));
    }
    if o.digit_separator == "_" && !is_decimal_literal(text) {
        return Err(format!("`{text}` is not a numeric literal"));
    }
    let parsed: f64 = t.parse().map_err(|_| format!("`{t}` does not parse"))?;
    if x == x.trunc() && x.abs() < 9007199254740992.0 {
        let want = format!("{}", x as i64);
        if t != want {
            return Err(format!("the integer {want} is displayed as `{text}`"));
        }
        return Ok(());
    }
    let n = sig_digits_shown(&t);
    // trailing zeros of the mantissa may be place holders (`1830` for 1831.5 at 3 digits) or a
    // formatting artefact (`9.0e+18` at 1 digit, `100.0`): the number of significant digits shown
    // is anything between the count without them and the full count
    let n_min = {
        let mant = t.strip_prefix('-').unwrap_or(&t).split('e').next().unwrap();
        let ds: String = mant.chars().filter(|c| c.is_ascii_digit()).collect();
        ds.trim_start_matches('0').trim_end_matches('0').len().max(1)
    };
    let mut cands = vec![];
    for k in n_min..=n {
        cands.extend(rounded_candidates(x, k));
    }
    if cands.iter().any(|c| *c == parsed) {
        Ok(())
    } else {
        Err(format!(
            "`{text}` reads back as {parsed:e}, but {x:e} rounded to the {n} displayed digits is {:?}",
            cands
        ))
    }
}

struct Chunk {
    values: u64,
    nontrivial: u64,
    outcomes: Vec<u64>,
    violations: Vec<(String, String, J)>,
    sample: Option<J>,
}

fn run_values(vals: impl Iterator<Item = f64>, o: &FormatOptions, tag: &str) -> Chunk {
    let mut c = Chunk { values: 0, nontrivial: 0, outcomes: vec![], violations: vec![], sample: None };
    for x in vals {
        c.values += 1;
        match show(x, o) {
            Err(p) => {
                if c.violations.len() < 20 {
                    c.violations.push((
                        format!("callsite:{}", p.site()),
                        format!("formatting {x:e} with {o:?} panicked: {} at {}", p.message, p.site()),
                        json!({"bits": format!("{:016x}", x.to_bits()), "sep": o.digit_separator, "threshold": o.digit_grouping_threshold, "sig": o.significant_digits}),
                    ));
                }
            }
            Ok(text) => {
                if text.contains('e') || text.contains('.') {
                    c.nontrivial += 1;
                }
                if c.values % 4099 == 1 {
                    c.outcomes.push(hash64(&text));
                    if c.sample.is_none() {
                        c.sample = Some(json!({"set": tag, "value": format!("{x:e}"), "settings": format!("sep={:?} thr={} sig={}", o.digit_separator, o.digit_grouping_threshold, o.significant_digits), "shown": text}));
                    }
                }
                if let Err(why) = judge(x, o, &text) {
                    if c.violations.len() < 20 {
                        c.violations.push((
                            format!("value:{:016x}|sep={}|thr={}|sig={}", x.to_bits(), o.digit_separator, o.digit_grouping_threshold, o.significant_digits),
                            format!("{x:e} with sep={:?} threshold={} sig={}: {why}", o.digit_separator, o.digit_grouping_threshold, o.significant_digits),
                            json!({"bits": format!("{:016x}", x.to_bits()), "sep": o.digit_separator, "threshold": o.digit_grouping_threshold, "sig": o.significant_digits}),
                        ));
                    }
                }
            }
        }
    }
    c
}

fn absorb(rep: &mut Report, cs: Vec<Chunk>, tag: &str) {
    let mut n = 0;
    for c in cs {
        n += c.values;
        rep.states += c.values;
        rep.transitions += c.values;
        rep.validated += c.values;
        rep.evaluations += c.values;
        rep.nontrivial_extra += c.nontrivial;
        for o in c.outcomes {
            rep.outcomes.insert(o);
        }
        for (k, w, j) in c.violations {
            rep.violation(k, w, j);
        }
        if let Some(s) = c.sample {
            if rep.samples.len() < 10 {
                rep.sample(s);
            }
        }
    }
    rep.set(&format!("set_{tag}"), json!(n));
}

/// all decimals with `digits` significant digits at exponent e, both signs
fn decimal_sweep(rep: &mut Report, digits: u32, exps: &[i32], o: &FormatOptions, tag: &str) {
    let lo = 10u64.pow(digits - 1);
    let hi = 10u64.pow(digits);
    let per = 50_000u64;
    let mut jobs: Vec<(i32, u64, u64)> = vec![];
    for &e in exps {
        let mut a = lo;
        while a < hi {
            jobs.push((e, a, (a + per).min(hi)));
            a += per;
        }
    }
    let cs: Vec<Chunk> = par_map(
        jobs.len(),
        || (),
        |_, i| {
            let (e, a, b) = jobs[i];
            let it = (a..b).flat_map(move |m| {
                let s = format!("{m}e{}", e - (digits as i32 - 1));
                let x: f64 = s.parse().unwrap();
                [x, -x]
            });
            run_values(it, o, tag)
        },
    );
    absorb(rep, cs, tag);
}

fn structured_values() -> Vec<f64> {
    let mut v = vec![0.0, -0.0, f64::NAN, f64::INFINITY, f64::NEG_INFINITY, f64::MAX, f64::MIN, f64::MIN_POSITIVE, f64::EPSILON];
    // integer windows
    for k in 0..=18 {
        let c = 10f64.powi(k);
        for d in -2000..=2000 {
            v.push(c + d as f64);
            v.push(-(c + d as f64));
            v.push(c + d as f64 + 0.5);
            v.push(c + d as f64 * 0.001);
        }
    }
    for p in [53, 63, 64, 31, 32] {
        let c = 2f64.powi(p);
        for d in -2000..=2000 {
            v.push(c + d as f64);
            v.push(-(c + d as f64));
        }
    }
    // bit patterns: every exponent x mantissas with <= 3 set bits among the 6 top / 6 bottom bits
    let positions: Vec<u32> = (0..6).chain(46..52).collect();
    let mut mants: Vec<u64> = vec![0];
    for i in 0..positions.len() {
        mants.push(1 << positions[i]);
        for j in i + 1..positions.len() {
            mants.push((1 << positions[i]) | (1 << positions[j]));
            for k in j + 1..positions.len() {
                mants.push((1 << positions[i]) | (1 << positions[j]) | (1 << positions[k]));
            }
        }
    }
    mants.push((1u64 << 52) - 1);
    for exp in 0..2047u64 {
        for m in &mants {
            let bits = (exp << 52) | m;
            v.push(f64::from_bits(bits));
            v.push(-f64::from_bits(bits));
        }
    }
    v
}

pub fn check(rep: &mut Report) {
    let default = FormatOptions::default();
    let all_exps: Vec<i32> = (-12..=22).collect();
    let switch_exps = [-7, -6, -5, 0, 5, 6, 7, 15, 16];
    match rep.tier {
        Tier::Quick => {
            decimal_sweep(rep, 6, &all_exps, &default, "decimals_6digit_all_exponents");
            decimal_sweep(rep, 7, &[-6, 0, 6, 16], &default, "decimals_7digit_switch_exponents");
        }
        Tier::Thorough => {
            decimal_sweep(rep, 7, &all_exps, &default, "decimals_7digit_all_exponents");
            decimal_sweep(rep, 8, &switch_exps[..6], &default, "decimals_8digit_switch_exponents");
        }
    }
    // structured values under the default settings
    let sv = structured_values();
    let nchunks = 64;
    let cs: Vec<Chunk> = par_map(
        nchunks,
        || (),
        |_, i| {
            let a = i * sv.len() / nchunks;
            let b = (i + 1) * sv.len() / nchunks;
            run_values(sv[a..b].iter().copied(), &default, "structured_bits_and_integer_windows")
        },
    );
    absorb(rep, cs, "structured_default_settings");

    // settings grid on a subset
    let seps = ["", "_", ",", " ", "'", "__"];
    let thresholds: Vec<usize> = (0..=9).collect();
    let sigs: Vec<usize> = match rep.tier {
        Tier::Quick => vec![1, 2, 3, 6, 10, 15, 16, 17],
        Tier::Thorough => (1..=17).chain([18, 20]).collect(),
    };
    let step = rep.tier.pick(97, 11);
    let subset: Vec<f64> = sv.iter().step_by(step).copied().collect();
    let mut grid: Vec<FormatOptions> = vec![];
    for s in seps {
        for t in &thresholds {
            for g in &sigs {
                grid.push(opts(s, *t, *g));
            }
        }
    }
    let cs: Vec<Chunk> = par_map(
        grid.len(),
        || (),
        |_, i| run_values(subset.iter().copied(), &grid[i], "settings_grid"),
    );
    absorb(rep, cs, "settings_grid_values_x_settings");
    rep.set("settings_in_grid", json!(grid.len()));
    rep.set("grid_value_subset", json!(subset.len()));
    rep.rule = "every k-digit decimal mantissa x exponent range x sign (k = 6/7 quick, 7/8 thorough), integer windows around 10^k and 2^p, every f64 exponent x structured mantissas, x a grid of (separator, threshold, significant digits); each value formatted by the real pretty-printer and judged; states = (value, settings) cases; non-trivial = cases displayed with a fraction or exponent".into();
    rep.assumptions = vec![
        "Rust's `{:.*e}` (exact, correctly rounded) and `{:e}` (shortest round trip) formatting and `str::parse::<f64>` are the reference arithmetic".into(),
        "'x rounded to the displayed digits' admits the exact decimal rounding or the rounding of the shortest round-trip digits".into(),
        "separator strings are taken from a grid of 6; placement of separators is only required to yield a literal after removal (and a documented `_` literal as is)".into(),
    ];
}

pub fn replay(case: &J) -> i32 {
    let bits = u64::from_str_radix(case["bits"].as_str().unwrap_or("0"), 16).unwrap_or(0);
    let x = f64::from_bits(bits);
    let o = opts(
        case["sep"].as_str().unwrap_or("_"),
        case["threshold"].as_u64().unwrap_or(6) as usize,
        case["sig"].as_u64().unwrap_or(6) as usize,
    );
    match show(x, &o) {
        Ok(t) => {
            println!("{x:e} -> `{t}`");
            match judge(x, &o, &t) {
                Ok(()) => {
                    println!("no violation on this tree");
                    0
                }
                Err(e) => {
                    println!("VIOLATION reproduced: {e}");
                    1
                }
            }
        }
        Err(p) => {
            println!("VIOLATION reproduced: panic {} at {}", p.message, p.location);
            1
        }
    }
}
