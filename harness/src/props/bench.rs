use crate::common::*;
use crate::props::c09::*;
use std::time::Instant;
pub fn check(rep: &mut Report) {
    let defs = scaffold();
    let mut ctx = prelude_ctx();
    for d in &defs {
        let src = render_def(d);
        let t = Instant::now();
        let r = run(&mut ctx, &src);
        println!("{:?} {:.3}s :: {}", r.is_ok(), t.elapsed().as_secs_f64(), src.replace('\n', " "));
    }
    for e in ["1", "xv", "pv.a", "true", "xs", "ff", "gv", "pv", "fact"] {
        let mut c = ctx.clone();
        println!("running {e}");
        let t = Instant::now();
        let r = run(&mut c, e);
        println!("  {} {:.3}s", r.fingerprint(), t.elapsed().as_secs_f64());
    }
    rep.states = 1; rep.transitions = 1;
}
pub fn replay(_c: &serde_json::Value) -> i32 { 2 }
