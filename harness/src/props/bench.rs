use crate::common::*;
use std::time::Instant;
pub fn check(rep: &mut Report) {
    let mut ctx = fresh_builtin_ctx();
    let r = run(&mut ctx, "use core::functions\nuse core::lists\nuse math::statistics\nuse math::geometry\nuse units::si");
    println!("{:?}", r.err_string());
    run(&mut ctx, "fn fu(x, y) = x * y + abs(x * y)");
    for call in ["fu(3 m, 5 s)", "fu(true, 2)", "2"] {
        let t = Instant::now();
        for _ in 0..2000 {
            let r = run(&mut ctx, call);
            std::hint::black_box(r);
        }
        println!("run {call}: {:.1} us", t.elapsed().as_secs_f64() / 2000.0 * 1e6);
        let t = Instant::now();
        for _ in 0..2000 {
            let mut settings = numbat::InterpreterSettings { print_fn: Box::new(|_| {}) };
            let r = ctx.interpret_with_settings(&mut settings, call, numbat::resolver::CodeSource::Text).is_ok();
            std::hint::black_box(r);
        }
        println!("bare {call}: {:.1} us", t.elapsed().as_secs_f64() / 2000.0 * 1e6);
    }
    let t = Instant::now();
    for _ in 0..200 {
        std::hint::black_box(ctx.clone());
    }
    println!("clone: {:.1} us", t.elapsed().as_secs_f64() / 200.0 * 1e6);
    rep.states = 1; rep.transitions = 1;
}
pub fn replay(_c: &serde_json::Value) -> i32 { 2 }
