//! C18 — lists behave as immutable values despite internal sharing.
//!
//! Explicit-state BFS over operation histories on K live slots holding *real* `NumbatList<u64>`
//! values, stepped in lockstep with a `Vec<u64>` reference.  States are rebuilt by replaying the
//! witness history (never cloned: cloning changes `Arc::strong_count`, which the code branches on).

use crate::common::*;
use numbat::list::NumbatList;
use serde_json::{Value as J, json};
use std::collections::HashSet;

#[derive(Clone, Copy, Debug, PartialEq, Eq)]
pub enum Act {
    New(u8),
    WithCap(u8),
    Clone(u8, u8),
    Drop(u8),
    PushFront(u8),
    PushBack(u8),
    Tail(u8),
    Head(u8),
    /// `let c = slot.clone(); c.tail(); slot = c` — the VM's FFI pattern (argument cloned from
    /// its stack slot, clone consumed, result bound again under the same name)
    TailVia(u8),
    ConsVia(u8),
    ConsEndVia(u8),
    /// take a clone, consume it with `head`, original stays (shared head path)
    HeadOfClone(u8),
}

pub fn actions(k: u8) -> Vec<Act> {
    let mut v = vec![];
    for i in 0..k {
        v.push(Act::New(i));
        v.push(Act::WithCap(i));
        v.push(Act::Drop(i));
        v.push(Act::PushFront(i));
        v.push(Act::PushBack(i));
        v.push(Act::Tail(i));
        v.push(Act::Head(i));
        v.push(Act::TailVia(i));
        v.push(Act::ConsVia(i));
        v.push(Act::ConsEndVia(i));
        v.push(Act::HeadOfClone(i));
        for j in 0..k {
            if i != j {
                v.push(Act::Clone(i, j));
            }
        }
    }
    v
}

pub struct World {
    real: Vec<Option<NumbatList<u64>>>,
    reference: Vec<Option<Vec<u64>>>,
    next: u64,
}

impl World {
    pub fn new(k: usize) -> Self {
        World {
            real: (0..k).map(|_| None).collect(),
            reference: (0..k).map(|_| None).collect(),
            next: 1,
        }
    }

    fn fresh(&mut self) -> u64 {
        let v = self.next;
        self.next += 1;
        v
    }

    /// Apply one action to both sides. Returns Err(description) on a disagreement that is visible
    /// in the operation's own result (head value, tail error).  Returns Ok(false) if the action is
    /// not enabled in this state (slot not live).
    pub fn step(&mut self, a: Act) -> Result<bool, String> {
        match a {
            Act::New(i) => {
                self.real[i as usize] = Some(NumbatList::new());
                self.reference[i as usize] = Some(vec![]);
            }
            Act::WithCap(i) => {
                self.real[i as usize] = Some(NumbatList::with_capacity(2));
                self.reference[i as usize] = Some(vec![]);
            }
            Act::Clone(i, j) => {
                let Some(l) = &self.real[i as usize] else {
                    return Ok(false);
                };
                let c = l.clone();
                self.real[j as usize] = Some(c);
                self.reference[j as usize] = self.reference[i as usize].clone();
            }
            Act::Drop(i) => {
                if self.real[i as usize].is_none() {
                    return Ok(false);
                }
                self.real[i as usize] = None;
                self.reference[i as usize] = None;
            }
            Act::PushFront(i) => {
                if self.real[i as usize].is_none() {
                    return Ok(false);
                }
                let v = self.fresh();
                self.real[i as usize].as_mut().unwrap().push_front(v);
                self.reference[i as usize].as_mut().unwrap().insert(0, v);
            }
            Act::PushBack(i) => {
                if self.real[i as usize].is_none() {
                    return Ok(false);
                }
                let v = self.fresh();
                self.real[i as usize].as_mut().unwrap().push_back(v);
                self.reference[i as usize].as_mut().unwrap().push(v);
            }
            Act::Tail(i) => {
                if self.real[i as usize].is_none() {
                    return Ok(false);
                }
                let r = self.real[i as usize].as_mut().unwrap().tail();
                let rf = self.reference[i as usize].as_mut().unwrap();
                if rf.is_empty() {
                    if r.is_ok() {
                        return Err("tail of an empty list succeeded".into());
                    }
                } else {
                    if r.is_err() {
                        return Err("tail of a non-empty list failed".into());
                    }
                    rf.remove(0);
                }
            }
            Act::Head(i) => {
                let Some(l) = self.real[i as usize].take() else {
                    return Ok(false);
                };
                let rf = self.reference[i as usize].take().unwrap();
                let h = l.head();
                if h != rf.first().copied() {
                    return Err(format!(
                        "head returned {:?}, reference says {:?}",
                        h,
                        rf.first()
                    ));
                }
            }
            Act::HeadOfClone(i) => {
                let Some(l) = &self.real[i as usize] else {
                    return Ok(false);
                };
                let c = l.clone();
                let h = c.head();
                let rf = self.reference[i as usize].as_ref().unwrap();
                if h != rf.first().copied() {
                    return Err(format!(
                        "head (of a clone) returned {:?}, reference says {:?}",
                        h,
                        rf.first()
                    ));
                }
            }
            Act::TailVia(i) => {
                let Some(l) = &self.real[i as usize] else {
                    return Ok(false);
                };
                let mut c = l.clone();
                let r = c.tail();
                let rf = self.reference[i as usize].as_mut().unwrap();
                if rf.is_empty() {
                    if r.is_ok() {
                        return Err("tail of an empty list succeeded".into());
                    }
                    // error: binding unchanged
                } else {
                    if r.is_err() {
                        return Err("tail of a non-empty list failed".into());
                    }
                    rf.remove(0);
                    self.real[i as usize] = Some(c);
                }
            }
            Act::ConsVia(i) => {
                let Some(l) = &self.real[i as usize] else {
                    return Ok(false);
                };
                let mut c = l.clone();
                let v = self.fresh();
                c.push_front(v);
                self.real[i as usize] = Some(c);
                self.reference[i as usize].as_mut().unwrap().insert(0, v);
            }
            Act::ConsEndVia(i) => {
                let Some(l) = &self.real[i as usize] else {
                    return Ok(false);
                };
                let mut c = l.clone();
                let v = self.fresh();
                c.push_back(v);
                self.real[i as usize] = Some(c);
                self.reference[i as usize].as_mut().unwrap().push(v);
            }
        }
        Ok(true)
    }

    /// Invariant: every live slot agrees with the reference through every public observer.
    pub fn check(&self) -> Result<(), String> {
        for (i, (l, r)) in self.real.iter().zip(self.reference.iter()).enumerate() {
            match (l, r) {
                (None, None) => {}
                (Some(l), Some(r)) => {
                    let got: Vec<u64> = l.iter().copied().collect();
                    if &got != r {
                        return Err(format!("slot {i}: iter() gives {got:?}, reference {r:?}"));
                    }
                    if l.len() != r.len() {
                        return Err(format!("slot {i}: len() {} vs {}", l.len(), r.len()));
                    }
                    if l.is_empty() != r.is_empty() {
                        return Err(format!("slot {i}: is_empty() disagrees"));
                    }
                    if format!("{l:?}") != format!("{r:?}") {
                        return Err(format!("slot {i}: Debug {l:?} vs {r:?}"));
                    }
                }
                _ => return Err(format!("slot {i}: liveness mismatch (machinery)")),
            }
        }
        for i in 0..self.real.len() {
            for j in 0..self.real.len() {
                if let (Some(a), Some(b)) = (&self.real[i], &self.real[j]) {
                    let expect = self.reference[i] == self.reference[j];
                    if (a == b) != expect {
                        return Err(format!(
                            "slots {i},{j}: == gives {}, reference {}",
                            a == b,
                            expect
                        ));
                    }
                }
            }
        }
        Ok(())
    }

    /// Canonical key: partition of slots by allocation, full deque of every allocation (values
    /// renamed by first occurrence), view of each slot.  Returns (key, number of shared allocs).
    pub fn key(&self) -> Result<(String, usize), String> {
        let mut allocs: Vec<(usize, Vec<u64>, usize, usize)> = vec![]; // ptr, content, strong, members
        let mut slots = vec![];
        for l in &self.real {
            match l {
                None => slots.push("-".to_string()),
                Some(l) => {
                    let (ptr, strong, full, view) = l.verif_repr();
                    let idx = match allocs.iter().position(|a| a.0 == ptr) {
                        Some(p) => {
                            allocs[p].3 += 1;
                            p
                        }
                        None => {
                            allocs.push((ptr, full, strong, 1));
                            allocs.len() - 1
                        }
                    };
                    slots.push(format!("a{idx}{view:?}"));
                }
            }
        }
        let mut rename: Vec<u64> = vec![];
        let mut key = slots.join(";");
        let mut shared = 0;
        for (_, content, strong, members) in &allocs {
            if strong != members {
                return Err(format!(
                    "machinery: strong_count {strong} != slots sharing the allocation {members}"
                ));
            }
            if *members > 1 {
                shared += 1;
            }
            key.push('|');
            for v in content {
                let id = match rename.iter().position(|x| x == v) {
                    Some(p) => p,
                    None => {
                        rename.push(*v);
                        rename.len() - 1
                    }
                };
                key.push_str(&format!("{id},"));
            }
        }
        Ok((key, shared))
    }
}

fn replay_history(k: usize, table: &[Act], hist: &[u8]) -> (World, Result<bool, String>) {
    let mut w = World::new(k);
    let mut last = Ok(true);
    for &a in hist {
        last = w.step(table[a as usize]);
        if !matches!(last, Ok(true)) {
            break;
        }
    }
    (w, last)
}

struct Expansion {
    hist: Box<[u8]>,
    key: u128,
    shared: bool,
    violation: Option<String>,
    outcome: u64,
}

pub fn explore(rep: &mut Report, k: usize, depth: usize, label: &str) {
    let table = actions(k as u8);
    let mut seen: HashSet<u128> = HashSet::new();
    let init = World::new(k);
    seen.insert(hash128(&init.key().unwrap().0));
    let mut frontier: Vec<Box<[u8]>> = vec![Box::new([])];
    let mut states: u64 = 1;
    let mut transitions: u64 = 0;
    let mut levels = vec![1u64];
    let mut shared_states: u64 = 0;
    let mut max_depth = 0;

    // replay-determinism self check
    for a in 0..table.len().min(50) {
        let h = [a as u8];
        let (w1, _) = replay_history(k, &table, &h);
        let (w2, _) = replay_history(k, &table, &h);
        if w1.key().map(|k| k.0) != w2.key().map(|k| k.0) {
            rep.machinery_error("replay of one history gave two different canonical keys");
            return;
        }
    }

    for d in 1..=depth {
        let nf = frontier.len();
        let results: Vec<Vec<Expansion>> = par_map(
            nf,
            || (),
            |_, idx| {
                let base = &frontier[idx];
                let mut out = vec![];
                for (ai, _a) in table.iter().enumerate() {
                    let mut hist: Vec<u8> = base.to_vec();
                    hist.push(ai as u8);
                    let r = guarded(|| {
                        let (w, last) = replay_history(k, &table, &hist);
                        match last {
                            Ok(false) => None,
                            Err(e) => Some((w, Some(e))),
                            Ok(true) => {
                                let v = w.check().err();
                                Some((w, v))
                            }
                        }
                    });
                    match r {
                        Err(p) => out.push(Expansion {
                            hist: hist.into_boxed_slice(),
                            key: 0,
                            shared: false,
                            violation: Some(format!(
                                "panic: {} at {}",
                                p.message,
                                p.site()
                            )),
                            outcome: 0,
                        }),
                        Ok(None) => {}
                        Ok(Some((w, viol))) => {
                            if let Some(v) = viol {
                                out.push(Expansion {
                                    hist: hist.into_boxed_slice(),
                                    key: 0,
                                    shared: false,
                                    violation: Some(v),
                                    outcome: 0,
                                });
                            } else {
                                match w.key() {
                                    Ok((ks, shared)) => {
                                        let outcome = hash64(&format!("{:?}", w.reference));
                                        out.push(Expansion {
                                            hist: hist.into_boxed_slice(),
                                            key: hash128(&ks),
                                            shared: shared > 0,
                                            violation: None,
                                            outcome,
                                        })
                                    }
                                    Err(e) => out.push(Expansion {
                                        hist: hist.into_boxed_slice(),
                                        key: 0,
                                        shared: false,
                                        violation: Some(e),
                                        outcome: 0,
                                    }),
                                }
                            }
                        }
                    }
                }
                out
            },
        );
        let mut next: Vec<Box<[u8]>> = vec![];
        for exps in results {
            for e in exps {
                transitions += 1;
                if let Some(v) = e.violation {
                    let ops: Vec<String> = e
                        .hist
                        .iter()
                        .map(|a| format!("{:?}", table[*a as usize]))
                        .collect();
                    if v.starts_with("machinery") {
                        rep.machinery_error(format!("{v} after {ops:?}"));
                    } else {
                        rep.violation(
                            format!("history:{}", ops.join(",")),
                            format!("{label}: after {} : {}", ops.join(" "), v),
                            json!({"k": k, "history": e.hist.to_vec(), "ops": ops}),
                        );
                    }
                    continue;
                }
                rep.outcomes.insert(e.outcome);
                if seen.insert(e.key) {
                    states += 1;
                    if e.shared {
                        shared_states += 1;
                    }
                    if rep.samples.len() < 6 && d >= 3 && e.shared {
                        let ops: Vec<String> = e
                            .hist
                            .iter()
                            .map(|a| format!("{:?}", table[*a as usize]))
                            .collect();
                        rep.sample(json!({"config": label, "history": ops}));
                    }
                    next.push(e.hist);
                }
            }
        }
        max_depth = d;
        levels.push(next.len() as u64);
        frontier = next;
        if rep.violations.len() > 200 {
            rep.exhaustive = false;
            break;
        }
        if frontier.is_empty() {
            break;
        }
    }
    rep.states += states;
    rep.transitions += transitions;
    rep.validated += transitions;
    rep.evaluations += transitions;
    rep.nontrivial_extra += shared_states;
    rep.set(
        &format!("config_{label}"),
        json!({"slots": k, "actions_per_state": table.len(), "depth_completed": max_depth,
               "states": states, "transitions": transitions, "frontier_per_level": levels,
               "states_with_shared_allocation": shared_states}),
    );
}

pub fn check(rep: &mut Report) {
    rep.rule = "BFS over operation histories on live NumbatList<u64> slots (real code), reference Vec<u64> stepped in lockstep; \
                state key = slot->allocation partition + full backing deque + views (values renamed by first occurrence); \
                non-trivial = distinct canonical states in which at least two slots share one allocation"
        .into();
    rep.assumptions = vec![
        "NumbatList<T> is parametric in T (only Clone/PartialEq/Debug used), so fresh distinct u64 values and renaming by first occurrence lose no behaviour".into(),
        "capacity of the backing VecDeque is not observable in safe Rust and is excluded from the state key".into(),
        "handles never cross threads (numbat's VM is single-threaded)".into(),
    ];
    match rep.tier {
        Tier::Quick => {
            explore(rep, 3, 11, "k3");
        }
        Tier::Thorough => {
            explore(rep, 3, 14, "k3");
            explore(rep, 4, 10, "k4");
            explore(rep, 2, 20, "k2");
        }
    }
}

pub fn replay(case: &J) -> i32 {
    let k = case["k"].as_u64().unwrap_or(3) as usize;
    let table = actions(k as u8);
    let hist: Vec<u8> = case["history"]
        .as_array()
        .map(|a| a.iter().map(|x| x.as_u64().unwrap() as u8).collect())
        .unwrap_or_default();
    let mut w = World::new(k);
    for a in &hist {
        let act = table[*a as usize];
        let r = guarded(|| w.step(act));
        println!("  {:?} -> {:?}", act, r.as_ref().map_err(|p| p.message.clone()));
        match r {
            Err(_) | Ok(Err(_)) => {
                println!("VIOLATION reproduced");
                return 1;
            }
            _ => {}
        }
        println!("     real: {:?}", w.real);
        println!("     ref : {:?}", w.reference);
    }
    match w.check() {
        Ok(()) => {
            println!("no violation on this tree");
            0
        }
        Err(e) => {
            println!("VIOLATION reproduced: {e}");
            1
        }
    }
}
