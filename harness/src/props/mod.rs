use crate::common::{Report, Tier};

pub mod c18;

pub fn run_check(id: &str, tier: Tier) -> i32 {
    let mut rep = Report::new(id, tier);
    let r = crate::common::guarded(|| match id {
        "C18" => c18::check(&mut rep),
        _ => {
            eprintln!("unknown or unimplemented property {id}");
            rep.machinery_error(format!("no check for {id}"));
        }
    });
    if let Err(p) = r {
        eprintln!(
            "MACHINERY-ERROR: engine panicked: {} at {}",
            p.message, p.location
        );
        return 2;
    }
    rep.finish()
}

pub fn replay(path: &str) -> i32 {
    let Ok(text) = std::fs::read_to_string(path) else {
        eprintln!("cannot read {path}");
        return 2;
    };
    let Ok(j) = serde_json::from_str::<serde_json::Value>(&text) else {
        eprintln!("cannot parse {path}");
        return 2;
    };
    let prop = j["property"].as_str().unwrap_or("").to_string();
    println!("replaying {} case: {}", prop, j["what"]);
    crate::common::set_quiet_panics(false);
    match prop.as_str() {
        "C18" => c18::replay(&j["case"]),
        _ => {
            eprintln!("no replay for {prop}");
            2
        }
    }
}

pub fn child(_args: &[String]) -> i32 {
    2
}
