#!/bin/bash
# Builds the verification harness (and, through the path dependency, numbat with the verif-hooks
# feature) from files on disk only.
set -eu
cd /verif/harness
export CARGO_NET_OFFLINE=true
mkdir -p /verif/work /verif/evidence /verif/replays
cargo build --release --offline
echo "setup ok"
