//! C13 — standard-library unit names and prefixes resolve correctly and uniquely.
//!
//! Complete finite space: every (unit alias × prefix × long/short spelling) string of the whole
//! standard library, against a reference built from the unit declarations in the `.nbt` sources and
//! an independent SI/IEC prefix table.

use crate::common::*;
use crate::units::*;
use numbat::value::Value;
use numbat::verif::Resolved;
use serde_json::{Value as J, json};
use std::collections::{BTreeMap, BTreeSet};

/// independent prefix table: (long, shorts, kind, exponent)
pub fn ref_prefixes() -> Vec<(&'static str, Vec<&'static str>, Pfx)> {
    let metric: [(&str, &[&str], i32); 24] = [
        ("quecto", &["q"], -30),
        ("ronto", &["r"], -27),
        ("yocto", &["y"], -24),
        ("zepto", &["z"], -21),
        ("atto", &["a"], -18),
        ("femto", &["f"], -15),
        ("pico", &["p"], -12),
        ("nano", &["n"], -9),
        ("micro", &["µ", "μ", "u"], -6),
        ("milli", &["m"], -3),
        ("centi", &["c"], -2),
        ("deci", &["d"], -1),
        ("deca", &["da"], 1),
        ("hecto", &["h"], 2),
        ("kilo", &["k"], 3),
        ("mega", &["M"], 6),
        ("giga", &["G"], 9),
        ("tera", &["T"], 12),
        ("peta", &["P"], 15),
        ("exa", &["E"], 18),
        ("zetta", &["Z"], 21),
        ("yotta", &["Y"], 24),
        ("ronna", &["R"], 27),
        ("quetta", &["Q"], 30),
    ];
    let binary: [(&str, &str, i32); 10] = [
        ("kibi", "Ki", 10),
        ("mebi", "Mi", 20),
        ("gibi", "Gi", 30),
        ("tebi", "Ti", 40),
        ("pebi", "Pi", 50),
        ("exbi", "Ei", 60),
        ("zebi", "Zi", 70),
        ("yobi", "Yi", 80),
        ("robi", "Ri", 90),
        ("quebi", "Qi", 100),
    ];
    let mut v = vec![];
    for (l, s, e) in metric {
        v.push((l, s.to_vec(), Pfx::Metric(e)));
    }
    for (l, s, e) in binary {
        v.push((l, vec![s], Pfx::Binary(e)));
    }
    v
}

#[derive(Debug, Clone, PartialEq, Eq)]
pub struct Decl {
    pub name: String,
    pub aliases: Vec<(String, bool, bool)>, // alias, short, long  (first = the name itself)
    pub metric: bool,
    pub binary: bool,
}

/// Scan the standard library's `.nbt` sources for unit declarations and their decorators.
pub fn scan_sources(root: &str) -> Result<BTreeMap<String, Decl>, String> {
    let mut out = BTreeMap::new();
    let mut files = vec![];
    fn walk(dir: &std::path::Path, files: &mut Vec<std::path::PathBuf>) {
        if let Ok(rd) = std::fs::read_dir(dir) {
            let mut es: Vec<_> = rd.flatten().map(|e| e.path()).collect();
            es.sort();
            for p in es {
                if p.is_dir() {
                    walk(&p, files);
                } else if p.extension().map(|e| e == "nbt").unwrap_or(false) {
                    files.push(p);
                }
            }
        }
    }
    walk(std::path::Path::new(root), &mut files);
    if files.is_empty() {
        return Err(format!("no .nbt files under {root}"));
    }
    for f in files {
        let text = std::fs::read_to_string(&f).map_err(|e| e.to_string())?;
        let mut decorators: Vec<String> = vec![];
        let mut pending = String::new();
        let mut depth = 0i32;
        for raw in text.lines() {
            let line = raw.trim();
            if depth > 0 {
                pending.push(' ');
                pending.push_str(line);
                depth += paren_delta(line);
                if depth <= 0 {
                    decorators.push(std::mem::take(&mut pending));
                    depth = 0;
                }
                continue;
            }
            if line.is_empty() || line.starts_with('#') {
                continue;
            }
            if line.starts_with('@') {
                let d = paren_delta(line);
                if d > 0 {
                    pending = line.to_string();
                    depth = d;
                } else {
                    decorators.push(line.to_string());
                }
                continue;
            }
            if let Some(rest) = line.strip_prefix("unit ") {
                let name: String = rest
                    .chars()
                    .take_while(|c| !(c.is_whitespace() || *c == ':' || *c == '='))
                    .collect();
                let mut decl = Decl {
                    name: name.clone(),
                    aliases: vec![(name.clone(), false, true)],
                    metric: false,
                    binary: false,
                };
                for d in &decorators {
                    if d.starts_with("@metric_prefixes") {
                        decl.metric = true;
                    } else if d.starts_with("@binary_prefixes") {
                        decl.binary = true;
                    } else if let Some(rest) = d.strip_prefix("@aliases(") {
                        let inner = rest.trim_end().trim_end_matches(')');
                        for item in inner.split(',') {
                            let item = item.trim();
                            if item.is_empty() {
                                continue;
                            }
                            let (n, ap) = match item.split_once(':') {
                                Some((n, a)) => (n.trim(), a.trim()),
                                None => (item, "long"),
                            };
                            let (s, l) = match ap {
                                "short" => (true, false),
                                "long" => (false, true),
                                "both" => (true, true),
                                "none" => (false, false),
                                other => return Err(format!("{}: unknown alias annotation {other}", f.display())),
                            };
                            if n == name {
                                decl.aliases[0] = (name.clone(), s, l);
                            } else if !decl.aliases.iter().any(|(x, _, _)| x == n) {
                                decl.aliases.push((n.to_string(), s, l));
                            }
                        }
                    }
                }
                out.insert(name, decl);
            }
            decorators.clear();
        }
    }
    Ok(out)
}

fn paren_delta(s: &str) -> i32 {
    // ignores parentheses inside string literals
    let mut d = 0;
    let mut in_str = false;
    let mut prev = ' ';
    for c in s.chars() {
        if c == '"' && prev != '\\' {
            in_str = !in_str;
        } else if !in_str {
            if c == '(' {
                d += 1;
            } else if c == ')' {
                d -= 1;
            }
        }
        prev = c;
    }
    d
}

type Reading = (Pfx, String); // prefix, full unit name

struct Case {
    s: String,
    expected: Option<Reading>,
    alias: String,
}

pub fn check(rep: &mut Report) {
    let base = all_ctx();
    let defs = match UnitDefs::build(&base) {
        Ok(d) => d,
        Err(e) => {
            rep.machinery_error(e);
            return;
        }
    };
    let decls = match scan_sources("/repo/numbat/modules") {
        Ok(d) => d,
        Err(e) => {
            rep.machinery_error(e);
            return;
        }
    };
    // cross-check: declarations from source == metadata from the running session
    let mut meta_mismatch = 0;
    for (name, u) in &defs.units {
        match decls.get(name) {
            None => {
                rep.violation(
                    format!("unit:{name}|nodecl"),
                    format!("unit {name} exists in the session but no declaration was found in the module sources"),
                    json!({"unit": name}),
                );
                meta_mismatch += 1;
            }
            Some(d) => {
                let mut a1: Vec<_> = d.aliases.clone();
                let mut a2: Vec<_> = u.aliases.clone();
                a1.sort();
                a2.sort();
                if a1 != a2 || d.metric != u.metric || d.binary != u.binary {
                    rep.violation(
                        format!("unit:{name}|metadata"),
                        format!(
                            "unit {name}: declared aliases/prefix flags {:?} m={} b={} but the session records {:?} m={} b={}",
                            a1, d.metric, d.binary, a2, u.metric, u.binary
                        ),
                        json!({"unit": name}),
                    );
                    meta_mismatch += 1;
                }
            }
        }
    }
    rep.set("units", json!(defs.units.len()));
    rep.set("declarations_in_sources", json!(decls.len()));
    rep.set("metadata_mismatches", json!(meta_mismatch));

    // expected readings from the declarations (source side)
    let prefixes = ref_prefixes();
    let mut readings: BTreeMap<String, BTreeSet<Reading>> = BTreeMap::new();
    let mut all_strings: BTreeMap<String, String> = BTreeMap::new(); // s -> alias it was built from
    let mut n_aliases = 0;
    for (name, _) in &defs.units {
        let Some(d) = decls.get(name) else { continue };
        for (alias, short, long) in &d.aliases {
            n_aliases += 1;
            readings
                .entry(alias.clone())
                .or_default()
                .insert((Pfx::none(), name.clone()));
            all_strings.insert(alias.clone(), alias.clone());
            for (pl, shorts, p) in &prefixes {
                let kind_ok = match p {
                    Pfx::Metric(_) => d.metric,
                    Pfx::Binary(_) => d.binary,
                };
                let sl = format!("{pl}{alias}");
                all_strings.entry(sl.clone()).or_insert(alias.clone());
                if kind_ok && *long {
                    readings.entry(sl).or_default().insert((*p, name.clone()));
                }
                for sp in shorts {
                    let ss = format!("{sp}{alias}");
                    all_strings.entry(ss.clone()).or_insert(alias.clone());
                    if kind_ok && *short {
                        readings.entry(ss).or_default().insert((*p, name.clone()));
                    }
                }
            }
        }
    }
    rep.set("aliases", json!(n_aliases));
    rep.set("identifier_strings", json!(all_strings.len()));
    // uniqueness over the whole set
    let mut ambiguous = 0;
    for (s, rs) in &readings {
        if rs.len() > 1 {
            ambiguous += 1;
            rep.violation(
                format!("ident:{s}|ambiguous"),
                format!("identifier `{s}` has {} legitimate readings: {:?}", rs.len(), rs),
                json!({"ident": s}),
            );
        }
    }
    rep.set("ambiguous_identifiers", json!(ambiguous));
    // no reading may also be a variable / function / dimension
    let others: BTreeSet<String> = base
        .variable_names()
        .map(|s| s.to_string())
        .chain(base.function_names().map(|s| s.to_string()))
        .chain(base.dimension_names().iter().map(|s| s.to_string()))
        .collect();
    for (s, rs) in &readings {
        if !rs.is_empty() && others.contains(s) {
            rep.violation(
                format!("ident:{s}|shadowed"),
                format!("`{s}` is a legitimate unit spelling ({rs:?}) but is also defined as a variable, function or dimension"),
                json!({"ident": s}),
            );
        }
    }

    let cases: Vec<Case> = all_strings
        .iter()
        .map(|(s, alias)| Case {
            s: s.clone(),
            expected: readings.get(s).and_then(|r| r.iter().next().cloned()),
            alias: alias.clone(),
        })
        .collect();
    let n = cases.len();
    // per case: resolution, evaluation through the tokenizer, conversion factor, display round trip
    let outs: Vec<(Vec<(String, String)>, bool, u64)> = par_map(
        n,
        || Evaluator::new(base.clone()),
        |ev, i| {
            let c = &cases[i];
            let mut v: Vec<(String, String)> = vec![];
            let mut evals = 0;
            let got = match ev.ctx().verif_resolve(&c.s) {
                Resolved::Identifier => None,
                Resolved::Unit { prefix_kind, prefix_exponent, full_name, .. } => Some((
                    if prefix_kind == 'M' { Pfx::Metric(prefix_exponent) } else { Pfx::Binary(prefix_exponent) },
                    full_name.to_string(),
                )),
            };
            if got != c.expected {
                v.push((
                    "resolve".into(),
                    format!("`{}` resolves to {:?}, the declarations say {:?}", c.s, got, c.expected),
                ));
            }
            if let Some((p, uname)) = &c.expected {
                // through tokenizer + parser + prefix transformer + VM
                evals += 1;
                let raw = raw_eval(ev.ctx(), &format!("1 {}", c.s));
                match raw.as_ref().and_then(quantity_parts) {
                    None => v.push(("eval".into(), format!("`1 {}` does not evaluate to a quantity", c.s))),
                    Some((x, fs)) => {
                        let want = vec![(uname.clone(), format!("{p:?}"), 1i128, 1i128)];
                        if x != 1.0 || fs != want {
                            v.push((
                                "eval".into(),
                                format!("`1 {}` evaluates to {x} [{}], expected 1 [{}]", c.s, factors_string(&fs), factors_string(&want)),
                            ));
                        } else if let Some(Value::Quantity(q)) = &raw {
                            // display -> re-resolve
                            let shown = q.unit().to_string();
                            let back = match ev.ctx().verif_resolve(&shown) {
                                Resolved::Identifier => None,
                                Resolved::Unit { prefix_kind, prefix_exponent, full_name, .. } => Some((
                                    if prefix_kind == 'M' { Pfx::Metric(prefix_exponent) } else { Pfx::Binary(prefix_exponent) },
                                    full_name.to_string(),
                                )),
                            };
                            if back.as_ref() != Some(&(*p, uname.clone())) {
                                v.push((
                                    "display".into(),
                                    format!("`{}` is displayed as `{shown}`, which reads back as {:?}", c.s, back),
                                ));
                            }
                            // ... and through the whole pipeline
                            evals += 1;
                            let again = raw_eval(ev.ctx(), &format!("1 {shown}"));
                            if again.as_ref().and_then(quantity_parts) != Some((1.0, want.clone())) {
                                v.push((
                                    "display".into(),
                                    format!("`{}` is displayed as `{shown}`, and `1 {shown}` does not evaluate to the same prefixed unit", c.s),
                                ));
                            }
                        }
                    }
                }
                // prefix factor: 1 <s> -> <unit name>
                evals += 1;
                let conv = ev.eval(&format!("(1 {}) -> {}", c.s, uname));
                match conv.value().and_then(quantity_parts) {
                    Some((x, _)) => {
                        if !close(x, p.factor(), 1e-12) {
                            v.push((
                                "factor".into(),
                                format!("`1 {} -> {}` = {x:e}, the prefix factor is {:e}", c.s, uname, p.factor()),
                            ));
                        }
                    }
                    None => v.push(("factor".into(), format!("`1 {} -> {}` fails: {:?}", c.s, uname, conv.err_string()))),
                }
                ev.reset();
            }
            (v, c.expected.is_some(), evals)
        },
    );
    rep.states = n as u64;
    let mut accepted = 0u64;
    for (i, (vs, acc, evals)) in outs.into_iter().enumerate() {
        rep.transitions += 1 + evals;
        rep.evaluations += 1 + evals;
        rep.validated += 1;
        if acc {
            accepted += 1;
            rep.nontrivial_case(&cases[i].s);
        }
        rep.outcome(&format!("{:?}", cases[i].expected));
        for (kind, what) in vs {
            rep.violation(
                format!("ident:{}|{kind}", cases[i].s),
                what,
                json!({"ident": cases[i].s, "alias": cases[i].alias, "kind": kind}),
            );
        }
        if i % 5003 == 17 {
            rep.sample(json!({"identifier": cases[i].s, "expected_reading": format!("{:?}", cases[i].expected)}));
        }
    }
    rep.set("accepted_identifiers", json!(accepted));

    // Long-session passes: all accepted identifiers evaluated one after the other in ONE session
    // (ascending and descending order), so that state kept between evaluations (prefix / constant
    // tables of the VM) is exercised across *different* prefixes and units.
    let accepted_cases: Vec<&Case> = cases.iter().filter(|c| c.expected.is_some()).collect();
    let orders: Vec<Vec<usize>> = vec![
        (0..accepted_cases.len()).collect(),
        (0..accepted_cases.len()).rev().collect(),
    ];
    let long: Vec<Vec<(String, String)>> = par_map(
        orders.len(),
        || (),
        |_, oi| {
            let mut ctx = base.clone();
            let mut v = vec![];
            for (step, &ci) in orders[oi].iter().enumerate() {
                let c = accepted_cases[ci];
                let (p, uname) = c.expected.as_ref().unwrap();
                let r = run(&mut ctx, &format!("let vfq_long = 1 {}", c.s));
                let got = if r.is_ok() {
                    ctx.verif_raw_global("vfq_long").as_ref().and_then(quantity_parts)
                } else {
                    None
                };
                let want = vec![(uname.clone(), format!("{p:?}"), 1i128, 1i128)];
                if got != Some((1.0, want.clone())) {
                    v.push((
                        c.s.clone(),
                        format!(
                            "in one session evaluating all unit spellings in {} order, step {step}: `1 {}` evaluates to {:?}, expected 1 [{}]",
                            if oi == 0 { "ascending" } else { "descending" },
                            c.s,
                            got.map(|(x, f)| format!("{x} [{}]", factors_string(&f))),
                            factors_string(&want)
                        ),
                    ));
                    if v.len() > 50 {
                        break;
                    }
                }
            }
            v
        },
    );
    for (oi, vs) in long.into_iter().enumerate() {
        rep.transitions += accepted_cases.len() as u64;
        rep.evaluations += accepted_cases.len() as u64;
        rep.states += 1;
        for (s, what) in vs {
            rep.violation(
                format!("ident:{s}|long-session-{oi}"),
                what,
                json!({"ident": s, "kind": "long-session", "order": oi}),
            );
        }
    }
    // the implementation's own prefix table vs the reference table (a typo in either shows here)
    let impl_table = numbat::verif::prefix_table();
    let mut imp: Vec<(String, Vec<String>, String)> = impl_table
        .iter()
        .map(|(l, s, k, e)| (l.to_string(), s.iter().map(|x| x.to_string()).collect(), format!("{k}{e}")))
        .collect();
    let mut refp: Vec<(String, Vec<String>, String)> = prefixes
        .iter()
        .map(|(l, s, p)| {
            (
                l.to_string(),
                s.iter().map(|x| x.to_string()).collect(),
                match p {
                    Pfx::Metric(e) => format!("M{e}"),
                    Pfx::Binary(e) => format!("B{e}"),
                },
            )
        })
        .collect();
    imp.sort();
    refp.sort();
    if imp != refp {
        rep.violation(
            "prefix-table",
            format!("the prefix table differs from the SI/IEC table: implementation {:?} vs reference {:?}", imp, refp),
            json!({"kind": "table"}),
        );
    }
    rep.rule = "complete product of (unit alias of the whole standard library) x (34 prefixes) x (long + every short spelling) plus the bare aliases; expected reading from the declarations in the .nbt sources + independent prefix table; checked: uniqueness, resolution, evaluation through the full pipeline, prefix factor, display round trip; non-trivial = identifiers that are legitimate unit spellings".into();
    rep.assumptions = vec![
        "the .nbt scanner understands @aliases/@metric_prefixes/@binary_prefixes as documented (unannotated alias = long prefixes only; unit name itself = long only)".into(),
        "all standard-library modules loaded (`use all`) with test exchange rates".into(),
    ];
}

pub fn replay(case: &J) -> i32 {
    let mut ctx = all_ctx();
    let s = case["ident"].as_str().unwrap_or("");
    println!("resolve({s}) = {:?}", ctx.verif_resolve(s));
    let r = raw_eval(&mut ctx, &format!("1 {s}"));
    println!("1 {s} = {:?}", r.as_ref().map(value_fingerprint));
    println!("(re-run `./check C13 quick` for the verdict against the declarations)");
    2
}
