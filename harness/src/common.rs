//! Shared machinery: sessions, panic capture, parallel sweeps, reports/evidence, known findings.

use numbat::module_importer::{BuiltinModuleImporter, ModuleImporter};
use numbat::resolver::{CodeSource, ModulePath};
use numbat::value::Value;
use numbat::{Context, InterpreterResult, InterpreterSettings, NumbatError};
use serde_json::{Value as J, json};
use std::cell::RefCell;
use std::collections::{BTreeMap, BTreeSet};
use std::panic::{AssertUnwindSafe, catch_unwind};
use std::path::PathBuf;
use std::sync::atomic::{AtomicU64, AtomicUsize, Ordering};
use std::sync::{Arc, Mutex, OnceLock};
use std::time::Instant;

pub const VERIF_ROOT: &str = "/verif";

// ------------------------------------------------------------------------------------------------
// tiers

#[derive(Clone, Copy, PartialEq, Eq, Debug)]
pub enum Tier {
    Quick,
    Thorough,
}

impl Tier {
    pub fn name(self) -> &'static str {
        match self {
            Tier::Quick => "quick",
            Tier::Thorough => "thorough",
        }
    }
    pub fn pick<T>(self, quick: T, thorough: T) -> T {
        match self {
            Tier::Quick => quick,
            Tier::Thorough => thorough,
        }
    }
}

pub fn nthreads() -> usize {
    std::env::var("VERIF_THREADS")
        .ok()
        .and_then(|s| s.parse().ok())
        .unwrap_or_else(|| {
            std::thread::available_parallelism()
                .map(|n| n.get())
                .unwrap_or(4)
        })
        .max(1)
}

// ------------------------------------------------------------------------------------------------
// process-wide determinism

pub fn init_process() {
    // SAFETY: called once at process start before any thread is spawned.
    unsafe {
        std::env::set_var("TZ", "UTC");
        std::env::remove_var("NUMBAT_MODULES_PATH");
    }
    Context::use_test_exchange_rates();
    install_panic_hook();
}

// ------------------------------------------------------------------------------------------------
// panic capture

thread_local! {
    static LAST_PANIC: RefCell<Option<PanicInfo>> = const { RefCell::new(None) };
    static QUIET_PANICS: RefCell<bool> = const { RefCell::new(true) };
}

#[derive(Clone, Debug)]
pub struct PanicInfo {
    pub message: String,
    pub location: String,
}

impl PanicInfo {
    /// A stable key: source location of the panic without the column.
    pub fn site(&self) -> String {
        // location = file:line:col
        let mut parts = self.location.rsplitn(2, ':');
        let _col = parts.next();
        let rest = parts.next().unwrap_or(&self.location);
        // strip line too -> file only is too coarse; keep file:line but normalise the /repo prefix
        let rest = rest.trim_start_matches("/repo/");
        // dependencies: drop the machine-specific registry prefix
        if let Some(i) = rest.find("/registry/src/") {
            let tail = &rest[i + "/registry/src/".len()..];
            if let Some(j) = tail.find('/') {
                return format!("registry:{}", &tail[j + 1..]);
            }
        }
        rest.to_string()
    }
    /// file only (for known-finding keys that must survive small line shifts)
    pub fn file(&self) -> String {
        let s = self.site();
        s.rsplitn(2, ':').nth(1).unwrap_or(&s).to_string()
    }
}

fn install_panic_hook() {
    let default = std::panic::take_hook();
    std::panic::set_hook(Box::new(move |info| {
        let message = if let Some(s) = info.payload().downcast_ref::<&str>() {
            s.to_string()
        } else if let Some(s) = info.payload().downcast_ref::<String>() {
            s.clone()
        } else {
            "<non-string panic payload>".to_string()
        };
        let location = info
            .location()
            .map(|l| format!("{}:{}:{}", l.file(), l.line(), l.column()))
            .unwrap_or_else(|| "<unknown>".into());
        let quiet = QUIET_PANICS.with(|q| *q.borrow());
        LAST_PANIC.with(|p| {
            *p.borrow_mut() = Some(PanicInfo {
                message: message.clone(),
                location: location.clone(),
            })
        });
        if !quiet {
            default(info);
        }
    }));
}

pub fn set_quiet_panics(q: bool) {
    QUIET_PANICS.with(|c| *c.borrow_mut() = q);
}

/// Run `f`, capturing a panic (message + location) instead of unwinding further.
pub fn guarded<T>(f: impl FnOnce() -> T) -> Result<T, PanicInfo> {
    LAST_PANIC.with(|p| *p.borrow_mut() = None);
    match catch_unwind(AssertUnwindSafe(f)) {
        Ok(v) => Ok(v),
        Err(_) => Err(LAST_PANIC.with(|p| p.borrow_mut().take()).unwrap_or(PanicInfo {
            message: "<panic without info>".into(),
            location: "<unknown>".into(),
        })),
    }
}

// ------------------------------------------------------------------------------------------------
// sessions

static PRELUDE: OnceLock<Mutex<Context>> = OnceLock::new();
static PRELUDE_ALL: OnceLock<Mutex<Context>> = OnceLock::new();

pub fn builtin_importer() -> BuiltinModuleImporter {
    BuiltinModuleImporter::default()
}

pub fn fresh_builtin_ctx() -> Context {
    let mut ctx = Context::new(builtin_importer());
    ctx.load_currency_module_on_demand(false);
    ctx
}

/// A session with `use prelude` loaded (cached per process; every caller gets a clone).
pub fn prelude_ctx() -> Context {
    PRELUDE
        .get_or_init(|| {
            let mut ctx = fresh_builtin_ctx();
            let r = run(&mut ctx, "use prelude");
            if let Outcome::Err(e) = &r.outcome {
                panic!("prelude failed to load: {e}");
            }
            if let Outcome::Panic(p) = &r.outcome {
                panic!("prelude panicked: {p:?}");
            }
            Mutex::new(ctx)
        })
        .lock()
        .unwrap()
        .clone()
}

/// A session with `use prelude` + `use units::currencies` (test exchange rates).
pub fn prelude_currencies_ctx() -> Context {
    PRELUDE_ALL
        .get_or_init(|| {
            let mut ctx = prelude_ctx();
            let r = run(&mut ctx, "use units::currencies");
            if !r.is_ok() {
                panic!("currencies failed to load: {:?}", r.err_string());
            }
            Mutex::new(ctx)
        })
        .lock()
        .unwrap()
        .clone()
}

static ALL: OnceLock<Mutex<Context>> = OnceLock::new();

/// A session with `use all` (every standard-library module, currencies with test rates).
pub fn all_ctx() -> Context {
    ALL.get_or_init(|| {
        let mut ctx = fresh_builtin_ctx();
        let r = run(&mut ctx, "use all");
        if !r.is_ok() {
            panic!("`use all` failed to load: {:?}", r.err_string());
        }
        Mutex::new(ctx)
    })
    .lock()
    .unwrap()
    .clone()
}

/// In-memory module importer (public trait of numbat).
#[derive(Clone, Default)]
pub struct MemImporter {
    pub modules: Arc<BTreeMap<String, String>>,
}

impl MemImporter {
    pub fn new(mods: &[(&str, &str)]) -> Self {
        MemImporter {
            modules: Arc::new(
                mods.iter()
                    .map(|(k, v)| (k.to_string(), v.to_string()))
                    .collect(),
            ),
        }
    }
}

impl ModuleImporter for MemImporter {
    fn import(&self, path: &ModulePath) -> Option<(String, Option<PathBuf>)> {
        let key = path
            .0
            .iter()
            .map(|s| s.as_str())
            .collect::<Vec<_>>()
            .join("::");
        self.modules.get(&key).map(|c| (c.clone(), None))
    }
    fn list_modules(&self) -> Vec<ModulePath> {
        self.modules
            .keys()
            .map(|k| ModulePath(k.split("::").map(|s| s.into()).collect()))
            .collect()
    }
}

#[derive(Debug, Clone)]
pub enum Outcome {
    /// value (None = Continue)
    Ok(Option<Value>),
    Err(Box<NumbatError>),
    Panic(PanicInfo),
}

#[derive(Debug, Clone)]
pub struct RunResult {
    pub outcome: Outcome,
    /// everything passed to print_fn, one entry per call (plain text)
    pub printed: Vec<String>,
    /// pretty-printed (plain text) typed statements, when the input was accepted
    pub statements: Vec<String>,
    /// readable type of the last statement if it is an expression
    pub last_type: Option<String>,
}

impl RunResult {
    pub fn is_ok(&self) -> bool {
        matches!(self.outcome, Outcome::Ok(_))
    }
    pub fn value(&self) -> Option<&Value> {
        match &self.outcome {
            Outcome::Ok(v) => v.as_ref(),
            _ => None,
        }
    }
    pub fn err_string(&self) -> Option<String> {
        match &self.outcome {
            Outcome::Err(e) => Some(e.to_string()),
            Outcome::Panic(p) => Some(format!("PANIC {} at {}", p.message, p.location)),
            _ => None,
        }
    }
    pub fn err(&self) -> Option<&NumbatError> {
        match &self.outcome {
            Outcome::Err(e) => Some(e),
            _ => None,
        }
    }
    pub fn panic(&self) -> Option<&PanicInfo> {
        match &self.outcome {
            Outcome::Panic(p) => Some(p),
            _ => None,
        }
    }
    /// stable text describing the outcome (value display / error text)
    pub fn fingerprint(&self) -> String {
        match &self.outcome {
            Outcome::Ok(Some(v)) => format!("ok:{}", value_fingerprint(v)),
            Outcome::Ok(None) => "ok:-".into(),
            Outcome::Err(e) => format!("err:{}", error_kind(e)),
            Outcome::Panic(p) => format!("panic:{}", p.site()),
        }
    }
}

pub fn error_stage(e: &NumbatError) -> &'static str {
    match e {
        NumbatError::ResolverError(_) => "resolver",
        NumbatError::NameResolutionError(_) => "name",
        NumbatError::TypeCheckError(_) => "type",
        NumbatError::RuntimeError(_) => "runtime",
    }
}

/// error stage + message (no spans, no source labels)
pub fn error_kind(e: &NumbatError) -> String {
    format!("{}:{}", error_stage(e), e)
}

/// Interpret `code` in `ctx`, capturing prints, panics and typed-statement echoes.
pub fn run(ctx: &mut Context, code: &str) -> RunResult {
    run_as(ctx, code, CodeSource::Text)
}

pub fn run_as(ctx: &mut Context, code: &str, source: CodeSource) -> RunResult {
    let printed = Arc::new(Mutex::new(Vec::<String>::new()));
    let p2 = printed.clone();
    let mut settings = InterpreterSettings {
        print_fn: Box::new(move |m: &numbat::markup::Markup| {
            p2.lock().unwrap().push(m.to_string());
        }),
    };
    let mut statements = vec![];
    let mut last_type = None;
    let r = guarded(|| {
        match ctx.interpret_with_settings(&mut settings, code, source) {
            Ok((stmts, res)) => {
                for s in &stmts {
                    statements.push(plain(&numbat::pretty_print::PrettyPrint::pretty_print(s)));
                }
                if let Some(numbat::Statement::Expression(e)) = stmts.last() {
                    last_type = Some(plain(&numbat::pretty_print::PrettyPrint::pretty_print(
                        &e.get_type_scheme(),
                    )));
                }
                match res {
                    InterpreterResult::Value(v) => Outcome::Ok(Some(v)),
                    InterpreterResult::Continue => Outcome::Ok(None),
                }
            }
            Err(e) => Outcome::Err(e),
        }
    });
    let outcome = match r {
        Ok(o) => o,
        Err(p) => Outcome::Panic(p),
    };
    let printed = printed.lock().unwrap().clone();
    RunResult {
        outcome,
        printed,
        statements,
        last_type,
    }
}

/// Evaluate `expr` and return its *raw* value (no result simplification): binds it to a global
/// and reads the VM stack slot through the verification hook.  Modifies `ctx`.
pub fn raw_eval(ctx: &mut Context, expr: &str) -> Option<Value> {
    let r = run(ctx, &format!("let vfq_raw_value = {expr}"));
    if !r.is_ok() {
        return None;
    }
    ctx.verif_raw_global("vfq_raw_value")
}

pub fn plain(m: &numbat::markup::Markup) -> String {
    m.to_string()
}

/// Bit-exact, structure-preserving fingerprint of a value (raw f64 bits + unit factor list).
pub fn value_fingerprint(v: &Value) -> String {
    match v {
        Value::Quantity(q) => {
            let x = q.unsafe_value().to_f64();
            format!("Q({:016x} {} [{}])", x.to_bits(), x, factors_string(&unit_factors_of!(q)))
        }
        Value::Boolean(b) => format!("B({b})"),
        Value::String(s) => format!("S({s:?})"),
        Value::DateTime(dt) => format!("D({dt})"),
        Value::FunctionReference(r) => format!("F({r})"),
        Value::FormatSpecifiers(s) => format!("FS({s:?})"),
        Value::StructInstance(info, vals) => {
            let fields: Vec<String> = info
                .fields
                .keys()
                .zip(vals.iter())
                .map(|(k, v)| format!("{k}={}", value_fingerprint(v)))
                .collect();
            format!("St({} {{{}}})", info.name, fields.join(","))
        }
        Value::List(l) => {
            let items: Vec<String> = l.iter().map(value_fingerprint).collect();
            format!("L[{}]", items.join(","))
        }
    }
}

pub type Factors = Vec<(String, String, i128, i128)>;

macro_rules! unit_factors_of {
    ($q:expr) => {
        $q.unit()
            .iter()
            .map(|f| {
                (
                    f.unit_id.name.to_string(),
                    format!("{:?}", f.prefix),
                    *f.exponent.numer(),
                    *f.exponent.denom(),
                )
            })
            .collect::<Vec<(String, String, i128, i128)>>()
    };
}
pub(crate) use unit_factors_of;

pub fn factors_string(fs: &Factors) -> String {
    fs.iter()
        .map(|(n, p, a, b)| {
            if *b == 1 {
                format!("{p}|{n}^{a}")
            } else {
                format!("{p}|{n}^{a}/{b}")
            }
        })
        .collect::<Vec<_>>()
        .join(" ")
}

/// Extract from a `Value::Quantity`: raw f64 and unit factors (name, prefix debug, num, den).
pub fn quantity_parts(v: &Value) -> Option<(f64, Vec<(String, String, i128, i128)>)> {
    match v {
        Value::Quantity(q) => Some((q.unsafe_value().to_f64(), unit_factors_of!(q))),
        _ => None,
    }
}

/// The implementation's own base-unit representation of a quantity: (value, factors over base units)
pub fn to_base_parts(v: &Value) -> Option<(f64, Factors)> {
    match v {
        Value::Quantity(q) => {
            let b = q.to_base_unit_representation();
            Some((b.unsafe_value().to_f64(), unit_factors_of!(b)))
        }
        _ => None,
    }
}

/// Display string of the unit of a quantity value
pub fn unit_text(v: &Value) -> Option<String> {
    match v {
        Value::Quantity(q) => Some(q.unit().to_string()),
        _ => None,
    }
}

/// The quantity converted to base units by the implementation (value, base unit text)
pub fn to_base(v: &Value) -> Option<(f64, String)> {
    match v {
        Value::Quantity(q) => {
            let b = q.to_base_unit_representation();
            Some((b.unsafe_value().to_f64(), b.unit().to_string()))
        }
        _ => None,
    }
}

// ------------------------------------------------------------------------------------------------
// parallel map over an index space with per-worker state

/// Calls `f(&mut state, index)` for every index in `0..n`, distributing dynamically over workers.
/// Results are returned in index order, so runs are deterministic.
pub fn par_map<S, R: Send>(
    n: usize,
    init: impl Fn() -> S + Sync,
    f: impl Fn(&mut S, usize) -> R + Sync,
) -> Vec<R> {
    let threads = nthreads().min(n.max(1));
    let next = AtomicUsize::new(0);
    let chunk = (n / (threads * 16)).clamp(1, 4096);
    let mut parts: Vec<Vec<(usize, R)>> = std::thread::scope(|s| {
        let hs: Vec<_> = (0..threads)
            .map(|_| {
                s.spawn(|| {
                    let mut st = init();
                    let mut out = Vec::new();
                    loop {
                        let start = next.fetch_add(chunk, Ordering::Relaxed);
                        if start >= n {
                            break;
                        }
                        for i in start..(start + chunk).min(n) {
                            out.push((i, f(&mut st, i)));
                        }
                    }
                    out
                })
            })
            .collect();
        hs.into_iter()
            .map(|h| h.join().expect("worker thread panicked (machinery error)"))
            .collect()
    });
    let mut all: Vec<(usize, R)> = parts.drain(..).flatten().collect();
    all.sort_by_key(|(i, _)| *i);
    all.into_iter().map(|(_, r)| r).collect()
}

// ------------------------------------------------------------------------------------------------
// known findings

#[derive(Debug, Clone)]
pub struct KnownFinding {
    pub property: String,
    pub key: String,
    pub what: String,
}

pub fn load_known_findings() -> Vec<KnownFinding> {
    let path = format!("{VERIF_ROOT}/known_findings.txt");
    let Ok(text) = std::fs::read_to_string(&path) else {
        return vec![];
    };
    let mut out = vec![];
    for line in text.lines() {
        let line = line.trim();
        if !line.starts_with("finding:") {
            continue; // comments and `fixed:` lines suppress nothing
        }
        // finding: property=C08 key=<...> what=<...>
        let rest = line["finding:".len()..].trim();
        let Some(pi) = rest.find("property=") else {
            continue;
        };
        let Some(ki) = rest.find(" key=") else {
            continue;
        };
        let Some(wi) = rest.find(" what=") else {
            continue;
        };
        let property = rest[pi + 9..ki].trim().to_string();
        let key = rest[ki + 5..wi].trim().to_string();
        let what = rest[wi + 6..].trim().to_string();
        out.push(KnownFinding {
            property,
            key,
            what,
        });
    }
    out
}

// ------------------------------------------------------------------------------------------------
// report / evidence

#[derive(Debug, Clone)]
pub struct Violation {
    /// key used to match known findings (e.g. `input:<text>` or `callsite:<file:line>`)
    pub key: String,
    /// one-line description
    pub what: String,
    /// everything needed to replay the case
    pub replay: J,
}

pub struct Report {
    pub property: String,
    pub tier: Tier,
    pub seed: u64,
    pub start: Instant,
    pub states: u64,
    pub transitions: u64,
    pub validated: u64,
    pub evaluations: u64,
    pub nontrivial: BTreeSet<u64>,
    pub nontrivial_extra: u64,
    pub rule: String,
    pub samples: Vec<J>,
    pub exhaustive: bool,
    pub assumptions: Vec<String>,
    pub extra: BTreeMap<String, J>,
    pub violations: Vec<Violation>,
    pub outcomes: BTreeSet<u64>,
    pub machinery_errors: Vec<String>,
}

pub fn hash64(s: &str) -> u64 {
    // FNV-1a 64
    let mut h: u64 = 0xcbf29ce484222325;
    for b in s.as_bytes() {
        h ^= *b as u64;
        h = h.wrapping_mul(0x100000001b3);
    }
    h
}

pub fn hash128(s: &str) -> u128 {
    let a = hash64(s) as u128;
    let mut h: u64 = 0x9E3779B97F4A7C15;
    for b in s.as_bytes() {
        h = (h ^ (*b as u64)).wrapping_mul(0xff51afd7ed558ccd).rotate_left(23);
    }
    (a << 64) | h as u128
}

impl Report {
    pub fn new(property: &str, tier: Tier) -> Self {
        let seed = std::env::var("VERIF_SEED")
            .ok()
            .and_then(|s| s.parse().ok())
            .unwrap_or(0);
        Report {
            property: property.to_string(),
            tier,
            seed,
            start: Instant::now(),
            states: 0,
            transitions: 0,
            validated: 0,
            evaluations: 0,
            nontrivial: BTreeSet::new(),
            nontrivial_extra: 0,
            rule: String::new(),
            samples: vec![],
            exhaustive: true,
            assumptions: vec![],
            extra: BTreeMap::new(),
            violations: vec![],
            outcomes: BTreeSet::new(),
            machinery_errors: vec![],
        }
    }

    pub fn sample(&mut self, j: J) {
        if self.samples.len() < 12 {
            self.samples.push(j);
        }
    }

    pub fn outcome(&mut self, s: &str) {
        if self.outcomes.len() < 1_000_000 {
            self.outcomes.insert(hash64(s));
        }
    }

    pub fn nontrivial_case(&mut self, s: &str) {
        self.nontrivial.insert(hash64(s));
    }

    pub fn violation(&mut self, key: impl Into<String>, what: impl Into<String>, replay: J) {
        self.violations.push(Violation {
            key: key.into(),
            what: what.into(),
            replay,
        });
    }

    pub fn set(&mut self, k: &str, v: J) {
        self.extra.insert(k.to_string(), v);
    }

    pub fn machinery_error(&mut self, s: impl Into<String>) {
        self.machinery_errors.push(s.into());
    }

    /// Writes evidence + replay files, prints VIOLATION / KNOWN-FINDING lines, returns exit code.
    pub fn finish(mut self) -> i32 {
        let known = load_known_findings();
        let mut known_hit: BTreeMap<String, (String, usize)> = BTreeMap::new();
        let mut fresh: Vec<&Violation> = vec![];
        for v in &self.violations {
            if let Some(k) = known
                .iter()
                .find(|k| k.property == self.property && k.key == v.key)
            {
                let e = known_hit.entry(k.key.clone()).or_insert((k.what.clone(), 0));
                e.1 += 1;
            } else {
                fresh.push(v);
            }
        }
        let wall = self.start.elapsed().as_secs_f64();
        let distinct_nontrivial = self.nontrivial.len() as u64 + self.nontrivial_extra;

        // replay files (fresh violations only; at most 50 files, grouped by key)
        let dir = format!("{VERIF_ROOT}/replays/{}", self.property);
        let _ = std::fs::create_dir_all(&dir);
        let mut printed_keys: BTreeSet<String> = BTreeSet::new();
        let mut lines = vec![];
        for v in &fresh {
            if printed_keys.contains(&v.key) {
                continue;
            }
            if printed_keys.len() >= 50 {
                break;
            }
            printed_keys.insert(v.key.clone());
            let path = format!("{dir}/{:016x}.json", hash64(&v.key));
            let body = json!({
                "property": self.property,
                "tier": self.tier.name(),
                "key": v.key,
                "what": v.what,
                "case": v.replay,
            });
            let _ = std::fs::write(&path, serde_json::to_string_pretty(&body).unwrap());
            lines.push(format!(
                "VIOLATION property={} replay={} key={} :: {}",
                self.property, path, v.key, v.what
            ));
        }
        let distinct_fresh_keys: BTreeSet<&str> = fresh.iter().map(|v| v.key.as_str()).collect();
        if std::env::var("VERIF_LIST_ALL").is_ok() {
            let mut seen_keys: BTreeSet<&str> = BTreeSet::new();
            for v in &fresh {
                if seen_keys.insert(v.key.as_str()) {
                    println!("FRESH-KEY {} :: {}", v.key, v.what);
                }
            }
        }

        let mut coverage = serde_json::Map::new();
        coverage.insert("states".into(), json!(self.states.max(0)));
        coverage.insert("transitions".into(), json!(self.transitions));
        coverage.insert(
            "traces_validated_against_impl".into(),
            json!(self.validated),
        );
        coverage.insert("evaluations".into(), json!(self.evaluations));
        coverage.insert("distinct_nontrivial".into(), json!(distinct_nontrivial));
        coverage.insert("rule".into(), json!(self.rule));
        if self.samples.is_empty() {
            self.samples.push(json!("<no case explored>"));
        }
        coverage.insert("samples".into(), json!(self.samples));
        coverage.insert("exhaustive".into(), json!(self.exhaustive));
        coverage.insert(
            "distinct_observed_outcomes".into(),
            json!(self.outcomes.len()),
        );
        coverage.insert(
            "known_findings_hit".into(),
            json!(
                known_hit
                    .iter()
                    .map(|(k, (w, n))| json!({"key": k, "what": w, "cases": n}))
                    .collect::<Vec<_>>()
            ),
        );
        coverage.insert(
            "fresh_violation_keys".into(),
            json!(distinct_fresh_keys.len()),
        );
        for (k, v) in &self.extra {
            coverage.insert(k.clone(), v.clone());
        }
        let evidence = json!({
            "property_id": self.property,
            "tier": self.tier.name(),
            "seed": self.seed,
            "level": "model_checking",
            "coverage": J::Object(coverage),
            "assumptions": self.assumptions,
            "wall_s": wall,
            "violations": distinct_fresh_keys.len(),
        });
        let epath = format!("{VERIF_ROOT}/evidence/{}.json", self.property);
        let _ = std::fs::create_dir_all(format!("{VERIF_ROOT}/evidence"));
        if let Err(e) = std::fs::write(&epath, serde_json::to_string_pretty(&evidence).unwrap()) {
            eprintln!("MACHINERY-ERROR: cannot write {epath}: {e}");
            return 2;
        }

        for (k, (w, n)) in &known_hit {
            println!(
                "KNOWN-FINDING: property={} {} [key={} cases={}]",
                self.property, w, k, n
            );
        }
        for l in &lines {
            println!("{l}");
        }
        println!(
            "{} {}: states={} transitions={} validated={} evaluations={} nontrivial={} outcomes={} violations={} known={} wall={:.1}s exhaustive={}",
            self.property,
            self.tier.name(),
            self.states,
            self.transitions,
            self.validated,
            self.evaluations,
            distinct_nontrivial,
            self.outcomes.len(),
            distinct_fresh_keys.len(),
            known_hit.len(),
            wall,
            self.exhaustive
        );
        if !self.machinery_errors.is_empty() {
            for m in &self.machinery_errors {
                eprintln!("MACHINERY-ERROR: {m}");
            }
            return 2;
        }
        if !fresh.is_empty() {
            return 1;
        }
        0
    }
}

// ------------------------------------------------------------------------------------------------
// misc

pub static CASE_COUNTER: AtomicU64 = AtomicU64::new(0);

pub fn ulp(x: f64) -> f64 {
    if !x.is_finite() {
        return f64::NAN;
    }
    let a = x.abs();
    if a == 0.0 {
        return f64::from_bits(1);
    }
    let bits = a.to_bits();
    f64::from_bits(bits + 1) - a
}

/// relative closeness with an absolute floor
pub fn close(a: f64, b: f64, rel: f64) -> bool {
    if a == b {
        return true;
    }
    if a.is_nan() || b.is_nan() {
        return a.is_nan() && b.is_nan();
    }
    if a.is_infinite() || b.is_infinite() {
        return a == b;
    }
    let scale = a.abs().max(b.abs());
    (a - b).abs() <= rel * scale
}

// ------------------------------------------------------------------------------------------------
// watchdog: in-process evaluations cannot be interrupted; an evaluation that the reference says
// terminates but that is still running after the limit is reported as a violation (hang) and the
// process exits 1 with a replay file

pub mod watch {
    use super::*;
    use std::sync::Mutex;
    use std::time::Instant;

    struct Slot {
        since: Instant,
        property: &'static str,
        field: &'static str,
        input: String,
    }
    static SLOTS: Mutex<Vec<Option<Slot>>> = Mutex::new(Vec::new());
    static DONE: AtomicU64 = AtomicU64::new(0);
    static STARTED: std::sync::Once = std::sync::Once::new();
    thread_local! { static MY: std::cell::Cell<usize> = const { std::cell::Cell::new(usize::MAX) }; }

    fn limit() -> f64 {
        std::env::var("VERIF_HANG_LIMIT_S").ok().and_then(|s| s.parse().ok()).unwrap_or(60.0)
    }

    fn start() {
        STARTED.call_once(|| {
            std::thread::spawn(|| {
                let t0 = Instant::now();
                loop {
                    std::thread::sleep(std::time::Duration::from_millis(500));
                    let g = SLOTS.lock().unwrap();
                    for s in g.iter().flatten() {
                        if s.since.elapsed().as_secs_f64() > limit() {
                            let key = format!("hang:{}", s.input.replace('\n', "⏎"));
                            let what = format!("`{}` is still being evaluated after {:.0} s although the reference semantics terminates within its fuel bound", s.input.replace('\n', "⏎"), limit());
                            let dir = format!("{VERIF_ROOT}/replays/{}", s.property);
                            let _ = std::fs::create_dir_all(&dir);
                            let path = format!("{dir}/{:016x}.json", hash64(&key));
                            let mut case = serde_json::Map::new();
                            case.insert(s.field.into(), json!(s.input));
                            case.insert("hang".into(), json!(true));
                            let body = json!({"property": s.property, "key": key, "what": what, "case": J::Object(case)});
                            let _ = std::fs::write(&path, serde_json::to_string_pretty(&body).unwrap());
                            let tier = std::env::args().skip_while(|a| a != "--tier").nth(1).unwrap_or_else(|| "quick".into());
                            let evidence = json!({
                                "property_id": s.property, "tier": tier, "seed": 0, "level": "model_checking",
                                "coverage": {
                                    "states": DONE.load(Ordering::Relaxed), "transitions": DONE.load(Ordering::Relaxed),
                                    "traces_validated_against_impl": DONE.load(Ordering::Relaxed),
                                    "evaluations": DONE.load(Ordering::Relaxed), "distinct_nontrivial": 0,
                                    "rule": "run aborted by the hang watchdog; counts are the evaluations completed before the abort",
                                    "samples": [s.input], "exhaustive": false,
                                },
                                "wall_s": t0.elapsed().as_secs_f64(), "violations": 1,
                            });
                            let _ = std::fs::write(format!("{VERIF_ROOT}/evidence/{}.json", s.property), serde_json::to_string_pretty(&evidence).unwrap());
                            println!("VIOLATION property={} replay={} key={} :: {}", s.property, path, key, what);
                            std::process::exit(1);
                        }
                    }
                }
            });
        });
    }

    /// Runs `f` (an uninterruptible evaluation of `input` by the implementation) under the watchdog.
    pub fn watched<T>(property: &'static str, field: &'static str, input: &str, f: impl FnOnce() -> T) -> T {
        start();
        let idx = MY.with(|m| {
            if m.get() == usize::MAX {
                let mut g = SLOTS.lock().unwrap();
                g.push(None);
                m.set(g.len() - 1);
            }
            m.get()
        });
        SLOTS.lock().unwrap()[idx] = Some(Slot { since: Instant::now(), property, field, input: input.to_string() });
        let r = f();
        SLOTS.lock().unwrap()[idx] = None;
        DONE.fetch_add(1, Ordering::Relaxed);
        r
    }
}
