//! C23 — standard-library inverse conversions round-trip.

use crate::common::*;
use crate::props::c19::INSTANTS;
use crate::units::*;
use numbat::value::Value;
use serde_json::{Value as J, json};

struct Case {
    family: &'static str,
    expr: String,
    /// expected value of the expression (in the unit the expression evaluates to)
    expect: f64,
    /// absolute tolerance
    tol: f64,
}

fn grid(exps: std::ops::RangeInclusive<i32>, mants: &[f64], signs: bool) -> Vec<f64> {
    let mut v = vec![];
    for e in exps {
        for m in mants {
            let x = m * 10f64.powi(e);
            v.push(x);
            if signs {
                v.push(-x);
            }
        }
    }
    v
}

fn lit(x: f64) -> String {
    if x < 0.0 { format!("({x:e})") } else { format!("{x:e}") }
}

fn scalar_of(v: &Value) -> Option<f64> {
    quantity_parts(v).map(|p| p.0)
}

pub fn check(rep: &mut Report) {
    let base = prelude_ctx();
    let defs = match UnitDefs::build(&base) {
        Ok(d) => d,
        Err(e) => {
            rep.machinery_error(e);
            return;
        }
    };
    let mut cases: Vec<Case> = vec![];
    let mants: Vec<f64> = match rep.tier {
        Tier::Quick => vec![1.0, 2.5, 3.7, 9.9],
        Tier::Thorough => (1..=99).map(|m| m as f64 / 10.0).collect(),
    };
    // 1. temperatures
    let mut temps = grid(-6..=6, &mants, true);
    temps.extend([0.0, -273.15, -459.67, 100.0, 37.0, -40.0]);
    for &x in &temps {
        let t = 1e-10 * (x.abs() + 500.0);
        for (to, from) in [("°C", "from_celsius"), ("celsius", "from_celsius"), ("degree_celsius", "from_celsius"), ("°F", "from_fahrenheit"), ("fahrenheit", "from_fahrenheit"), ("degree_fahrenheit", "from_fahrenheit")] {
            cases.push(Case { family: "temperature", expr: format!("{to}({from}({}))", lit(x)), expect: x, tol: t });
        }
        // sugar: `x °C` is from_celsius(x), `T -> °C` is °C(T)
        cases.push(Case { family: "temperature", expr: format!("({} °C) -> °C", lit(x)), expect: x, tol: t });
        cases.push(Case { family: "temperature", expr: format!("({} °F) -> °F", lit(x)), expect: x, tol: t });
        cases.push(Case { family: "temperature", expr: format!("({} celsius) -> fahrenheit", lit(x)), expect: x * 9.0 / 5.0 + 32.0, tol: 2.0 * t });
        cases.push(Case { family: "temperature", expr: format!("({} fahrenheit) -> celsius", lit(x)), expect: (x - 32.0) * 5.0 / 9.0, tol: 2.0 * t });
        if x >= 0.0 {
            // kelvin -> scale -> kelvin
            cases.push(Case { family: "temperature", expr: format!("from_celsius(°C({} K)) -> K", lit(x)), expect: x, tol: t });
            cases.push(Case { family: "temperature", expr: format!("from_fahrenheit(°F({} K)) -> K", lit(x)), expect: x, tol: 2.0 * t });
            // the same temperature held in prefixed kelvin and as a derived expression
            cases.push(Case { family: "temperature", expr: format!("from_celsius(°C(({} * 1000) mK)) -> K", lit(x)), expect: x, tol: 2.0 * t });
            cases.push(Case { family: "temperature", expr: format!("from_fahrenheit(°F(({} / 1000) kK)) -> K", lit(x)), expect: x, tol: 2.0 * t });
            cases.push(Case { family: "temperature", expr: format!("from_celsius(({} k_B K / k_B) -> °C) -> K", lit(x)), expect: x, tol: 2.0 * t });
            cases.push(Case { family: "temperature", expr: format!("(({} * 1000) mK -> °C) - ({} K -> °C)", lit(x), lit(x)), expect: 0.0, tol: 2.0 * t });
        }
    }
    // 2. unix time, 3. julian date
    for t in INSTANTS {
        if t.starts_with('-') || t.contains(":60") {
            continue;
        }
        let dt = format!("datetime(\"{t}\")");
        // from_unixtime(unixtime(t)) is t up to the microsecond
        cases.push(Case { family: "unixtime", expr: format!("(from_unixtime(unixtime({dt})) - {dt}) -> s"), expect: 0.0, tol: 1.001e-6 });
        cases.push(Case { family: "unixtime", expr: format!("(from_unixtime_s(unixtime_s({dt})) - {dt}) -> s"), expect: -0.5, tol: 0.5 + 1.001e-6 });
        cases.push(Case { family: "unixtime", expr: format!("(from_unixtime_ms(unixtime_ms({dt})) - {dt}) -> s"), expect: -0.0005, tol: 0.0005 + 1.001e-6 });
        cases.push(Case { family: "unixtime", expr: format!("(from_unixtime_µs(unixtime_µs({dt})) - {dt}) -> s"), expect: 0.0, tol: 1.001e-6 });
        cases.push(Case { family: "julian", expr: format!("(from_julian_date(julian_date({dt})) - {dt}) -> s"), expect: 0.0, tol: 1e-4 });
    }
    let ints = grid(0..=11, &[1.0, 2.0, 7.0], true);
    for &n in &ints {
        let n = n.trunc();
        if n.abs() < 2.5e11 {
            cases.push(Case { family: "unixtime", expr: format!("unixtime_s(from_unixtime_s({}))", lit(n)), expect: n, tol: 0.0 });
            cases.push(Case { family: "unixtime", expr: format!("unixtime_ms(from_unixtime_ms({}))", lit(n)), expect: n, tol: 0.0 });
            cases.push(Case { family: "unixtime", expr: format!("unixtime_µs(from_unixtime_µs({}))", lit(n)), expect: n, tol: 0.0 });
            cases.push(Case { family: "unixtime", expr: format!("unixtime(from_unixtime({} unix_s)) -> unix_s", lit(n + 0.25)), expect: n + 0.25, tol: 1.001e-6 });
        }
    }
    for &jd in &grid(0..=6, &[1.0, 2.4515, 5.3], false) {
        if jd < 5.3e6 {
            cases.push(Case { family: "julian", expr: format!("julian_date(from_julian_date({} days)) -> days", lit(jd)), expect: jd, tol: 1e-9 * jd.max(1.0) + 2e-9 });
        }
    }
    // 4. transcendental inverses
    let unit_iv: Vec<f64> = (-20..=20).map(|k| k as f64 / 20.0).collect();
    for &y in &unit_iv {
        cases.push(Case { family: "trig", expr: format!("sin(asin({}))", lit(y)), expect: y, tol: 1e-12 });
        cases.push(Case { family: "trig", expr: format!("cos(acos({}))", lit(y)), expect: y, tol: 1e-12 });
        if y.abs() < 1.0 {
            cases.push(Case { family: "hyperbolic", expr: format!("tanh(atanh({}))", lit(y)), expect: y, tol: 1e-12 });
        }
        let x = y * 1.5;
        cases.push(Case { family: "trig", expr: format!("asin(sin({}))", lit(x)), expect: x, tol: 1e-10 });
        cases.push(Case { family: "trig", expr: format!("acos(cos({}))", lit(x.abs())), expect: x.abs(), tol: 1e-7 });
        cases.push(Case { family: "trig", expr: format!("atan(tan({}))", lit(x)), expect: x, tol: 1e-10 });
    }
    for &y in &grid(-6..=6, &[1.0, 2.5, 7.3], true) {
        cases.push(Case { family: "trig", expr: format!("tan(atan({}))", lit(y)), expect: y, tol: 1e-9 * y.abs() + 1e-15 });
        cases.push(Case { family: "hyperbolic", expr: format!("sinh(asinh({}))", lit(y)), expect: y, tol: 1e-10 * y.abs() + 1e-15 });
        cases.push(Case { family: "roots", expr: format!("cbrt(({})^3)", lit(y)), expect: y, tol: 1e-12 * y.abs() });
        if y.abs() < 300.0 {
            cases.push(Case { family: "explog", expr: format!("ln(exp({}))", lit(y)), expect: y, tol: 1e-10 * y.abs().max(1.0) });
            cases.push(Case { family: "hyperbolic", expr: format!("asinh(sinh({}))", lit(y)), expect: y, tol: 1e-9 * y.abs().max(1e-3) });
        }
        if y.abs() < 18.0 {
            cases.push(Case { family: "hyperbolic", expr: format!("atanh(tanh({}))", lit(y)), expect: y, tol: 1e-6 * y.abs().max(1.0) * (2.0 * y.abs()).exp().min(1e9) * 1e-9 + 1e-12 });
        }
        if y > 0.0 {
            cases.push(Case { family: "explog", expr: format!("exp(ln({}))", lit(y)), expect: y, tol: 1e-10 * y });
            cases.push(Case { family: "explog", expr: format!("10^(log10({}))", lit(y)), expect: y, tol: 1e-10 * y });
            cases.push(Case { family: "explog", expr: format!("2^(log2({}))", lit(y)), expect: y, tol: 1e-10 * y });
            cases.push(Case { family: "explog", expr: format!("log10(10^({}))", lit(y.min(300.0))), expect: y.min(300.0), tol: 1e-10 * y.min(300.0).max(1.0) });
            cases.push(Case { family: "roots", expr: format!("sqr(sqrt({}))", lit(y)), expect: y, tol: 1e-12 * y });
            cases.push(Case { family: "roots", expr: format!("sqrt(sqr({}))", lit(y)), expect: y, tol: 1e-12 * y });
            if y >= 1.0 {
                cases.push(Case { family: "hyperbolic", expr: format!("cosh(acosh({}))", lit(y)), expect: y, tol: 1e-10 * y });
            }
            if y < 300.0 {
                cases.push(Case { family: "hyperbolic", expr: format!("acosh(cosh({}))", lit(y)), expect: y, tol: 1e-7 * y.max(1.0) });
            }
        }
    }
    // with units: sqrt / sqr on quantities
    for u in ["m", "s", "kg"] {
        cases.push(Case { family: "roots", expr: format!("sqrt(sqr(2.5 {u})) -> {u}"), expect: 2.5, tol: 1e-12 });
        cases.push(Case { family: "roots", expr: format!("cbrt((2.5 {u})^3) -> {u}"), expect: 2.5, tol: 1e-12 });
    }
    let n_scalar = cases.len();
    let outs: Vec<Result<f64, String>> = par_map(
        n_scalar,
        || Evaluator::new(base.clone()),
        |ev, i| {
            let r = ev.eval(&cases[i].expr);
            if let Some(p) = r.panic() {
                return Err(format!("PANIC {} at {}", p.message, p.site()));
            }
            match r.value().and_then(scalar_of) {
                Some(x) => Ok(x),
                None => Err(format!("does not evaluate to a number: {}", r.err_string().unwrap_or_else(|| r.fingerprint()))),
            }
        },
    );
    rep.states += n_scalar as u64;
    let mut fam: std::collections::BTreeMap<&str, u64> = Default::default();
    for (i, o) in outs.into_iter().enumerate() {
        rep.transitions += 1;
        rep.evaluations += 1;
        let c = &cases[i];
        *fam.entry(c.family).or_default() += 1;
        match o {
            Ok(x) => {
                rep.validated += 1;
                rep.nontrivial_case(&c.expr);
                if i % 307 == 0 {
                    rep.outcome(&format!("{x:e}"));
                    if rep.samples.len() < 6 {
                        rep.sample(json!({"expr": c.expr, "value": x, "expected": c.expect, "tolerance": c.tol}));
                    }
                }
                if !((x - c.expect).abs() <= c.tol) {
                    rep.violation(
                        format!("input:{}", c.expr),
                        format!("`{}` = {x:e}, expected {:e} (tolerance {:e})", c.expr, c.expect, c.tol),
                        json!({"expr": c.expr, "expect": c.expect, "tol": c.tol}),
                    );
                }
            }
            Err(e) => {
                if e.starts_with("PANIC") {
                    let site = e.split(" at ").last().unwrap_or("").to_string();
                    rep.violation(format!("callsite:{site}"), format!("`{}`: {e}", c.expr), json!({"expr": c.expr}));
                } else {
                    rep.violation(format!("input:{}", c.expr), format!("`{}` {e}", c.expr), json!({"expr": c.expr, "expect": c.expect, "tol": c.tol}));
                }
            }
        }
    }
    rep.set("cases_per_family", json!(fam));

    // 5. mixed units: every ordered k-subset (k <= 3; k <= 4 thorough) of each unit family x value grid
    let families: Vec<Vec<&str>> = vec![vec!["day", "hour", "minute", "second"], vec!["mile", "yard", "foot", "inch"], vec!["degree", "arcminute", "arcsecond"], vec!["pound", "ounce"], vec!["km", "m", "cm", "mm"]];
    let values = [0.0, 1.0, 1.5, 2.75, 59.999, 3661.5, 86399.999999, 1e6, 0.001, -3661.5, 0.1, 7.0 / 3.0];
    let mut mixed: Vec<(Vec<&str>, f64)> = vec![];
    for f in &families {
        let kmax = rep.tier.pick(3, 4).min(f.len());
        let mut subsets: Vec<Vec<&str>> = vec![];
        fn rec<'a>(f: &[&'a str], cur: &mut Vec<&'a str>, k: usize, out: &mut Vec<Vec<&'a str>>) {
            if !cur.is_empty() {
                out.push(cur.clone());
            }
            if cur.len() == k {
                return;
            }
            for u in f {
                if !cur.contains(u) {
                    cur.push(u);
                    rec(f, cur, k, out);
                    cur.pop();
                }
            }
        }
        rec(f, &mut vec![], kmax, &mut subsets);
        for s in subsets {
            for v in values {
                mixed.push((s.clone(), v));
            }
        }
    }
    let unit_factor = |alias: &str| -> f64 {
        // aliases used above -> base factor via the reference
        let (p, name) = match alias {
            "km" => (1e3, "metre"),
            "m" => (1.0, "metre"),
            "cm" => (1e-2, "metre"),
            "mm" => (1e-3, "metre"),
            other => (1.0, other),
        };
        p * defs.units[name].base_factor
    };
    let mouts: Vec<Result<String, String>> = par_map(
        mixed.len(),
        || Evaluator::new(base.clone()),
        |ev, i| {
            let (units, v) = &mixed[i];
            // value given in the first listed unit
            let expr = format!("unit_list([{}], {} {})", units.join(", "), lit(*v), units[0]);
            let r = ev.eval(&expr);
            if let Some(p) = r.panic() {
                return Err(format!("PANIC {} at {}", p.message, p.site()));
            }
            let Some(Value::List(l)) = r.value() else {
                return Err(format!("`{expr}` does not evaluate to a list: {}", r.err_string().unwrap_or_default()));
            };
            let parts: Vec<(f64, Factors)> = l.iter().filter_map(quantity_parts).collect();
            let mut sorted: Vec<&str> = units.clone();
            sorted.sort_by(|a, b| unit_factor(b).partial_cmp(&unit_factor(a)).unwrap());
            if parts.len() != sorted.len() {
                return Err(format!("`{expr}` gives {} parts for {} units", parts.len(), sorted.len()));
            }
            let total = v * unit_factor(units[0]);
            let mut sum = 0.0;
            for (k, (x, fs)) in parts.iter().enumerate() {
                let Some((f, _)) = defs.base_of(&parse_factors(fs)) else {
                    return Err(format!("`{expr}`: part {k} has an unknown unit"));
                };
                if !close(f, unit_factor(sorted[k]), 1e-12) {
                    return Err(format!("`{expr}`: part {k} is in [{}], expected {}", factors_string(fs), sorted[k]));
                }
                if k + 1 < parts.len() && x.fract() != 0.0 {
                    return Err(format!("`{expr}`: part {k} = {x} {} is not a whole number", sorted[k]));
                }
                sum += x * f;
            }
            if (sum - total).abs() > 1e-9 * total.abs() + 1e-12 * unit_factor(units[0]) {
                return Err(format!("`{expr}`: the parts add up to {sum:e} (base units), the original is {total:e}"));
            }
            Ok(format!("{:?}", parts.iter().map(|p| p.0).collect::<Vec<_>>()))
        },
    );
    rep.states += mixed.len() as u64;
    for (i, o) in mouts.into_iter().enumerate() {
        rep.transitions += 1;
        rep.evaluations += 1;
        match o {
            Ok(s) => {
                rep.validated += 1;
                rep.nontrivial_case(&format!("{:?}", mixed[i]));
                if i % 101 == 0 {
                    rep.outcome(&s);
                }
                if i % 2003 == 5 {
                    rep.sample(json!({"units": mixed[i].0, "value": mixed[i].1, "parts": s}));
                }
            }
            Err(e) => {
                if e.starts_with("PANIC") {
                    let site = e.split(" at ").last().unwrap_or("").to_string();
                    rep.violation(format!("callsite:{site}"), format!("unit_list {:?}: {e}", mixed[i]), json!({"units": mixed[i].0, "value": mixed[i].1}));
                } else {
                    rep.violation(format!("mixed:{:?}|{}", mixed[i].0, mixed[i].1), e, json!({"units": mixed[i].0, "value": mixed[i].1}));
                }
            }
        }
    }
    rep.set("mixed_unit_cases", json!(mixed.len()));
    // named wrappers
    let mut ev = Evaluator::new(base.clone());
    for (e, want) in [("DMS(46.5858°)", vec![46.0, 35.0, 8.88]), ("feet_and_inches(180 cm)", vec![5.0, 10.866141732283465]), ("pounds_and_ounces(1 kg)", vec![2.0, 3.273961949580412]), ("DM(46.5858°)", vec![46.0, 35.148])] {
        let r = ev.eval(e);
        rep.states += 1;
        rep.transitions += 1;
        let got: Vec<f64> = match r.value() {
            Some(Value::List(l)) => l.iter().filter_map(quantity_parts).map(|p| p.0).collect(),
            _ => vec![],
        };
        if got.len() != want.len() || got.iter().zip(want.iter()).any(|(a, b)| !close(*a, *b, 1e-6)) {
            rep.violation(format!("input:{e}"), format!("`{e}` = {got:?}, expected about {want:?}"), json!({"expr": e}));
        } else {
            rep.validated += 1;
        }
    }
    rep.rule = "deterministic grids over each inverse pair's domain (mantissas x exponents x signs, domain edges) for temperature scales, unix time, Julian date and transcendental/root pairs; every ordered k-subset of 5 unit families x a value grid for unit_list; states = cases; non-trivial = all (each case composes a function with its inverse)".into();
    rep.assumptions = vec![
        "tolerances are absolute and scaled by the condition of the pair at the grid point (stated per case in the replay file)".into(),
        "floor-based unixtime_s/ms variants are only required to return the integer they were given".into(),
    ];
}

pub fn replay(case: &J) -> i32 {
    let mut ev = Evaluator::new(prelude_ctx());
    if let Some(e) = case["expr"].as_str() {
        let r = ev.eval(e);
        println!("{e} => {}  (expected {} ± {})", r.fingerprint(), case["expect"], case["tol"]);
    } else {
        println!("{case}");
    }
    2
}
