#!/bin/bash
# seed_verify.sh <ID>_<tag> : rebase a sub-agent's change onto /repo HEAD inside its scratch worktree,
# confirm (1) baseline tests pass with it, (2) demo fails with it, (3) demo passes without it.
# Writes /tmp/wt_out/<ID>_<tag>/verified.txt and rebased.diff
set -u
T=$1; WT=/tmp/wt/$T; OUT=/tmp/wt_out/$T
cd $WT || exit 2
git diff > $OUT/agent.diff
git apply -R $OUT/agent.diff
git checkout -q --detach $(git -C /repo rev-parse HEAD)
if ! git apply -3 $OUT/agent.diff; then echo "REBASE-CONFLICT" > $OUT/verified.txt; exit 1; fi
git reset -q
git diff > $OUT/rebased.diff
{
echo "head=$(git rev-parse --short HEAD)"
cargo test --workspace --no-fail-fast --offline 2>&1 | grep -E "^test result|FAILED|failed" > $OUT/tests.log
P=$(grep -oE "[0-9]+ passed" $OUT/tests.log | awk '{s+=$1} END{print s}')
F=$(grep -oE "[0-9]+ failed" $OUT/tests.log | awk '{s+=$1} END{print s}')
echo "tests_passed=$P tests_failed=$F"
bash $OUT/demo.sh > $OUT/demo_with.log 2>&1; echo "demo_with_patch_exit=$?"
git apply -R $OUT/rebased.diff
bash $OUT/demo.sh > $OUT/demo_without.log 2>&1; echo "demo_without_patch_exit=$?"
git apply $OUT/rebased.diff
} > $OUT/verified.txt 2>&1
cat $OUT/verified.txt
