#!/usr/bin/env python3
"""Generates /verif/MANIFEST.json from the table below (kept next to the checks so the two stay in sync)."""
import json, subprocess, sys

HOOK_COMMITS = subprocess.run(
    ["git", "-C", "/repo", "log", "--format=%H %s"], capture_output=True, text=True
).stdout.strip().splitlines()
hook_commits = [l.split()[0] for l in HOOK_COMMITS if "verif" in l.lower() and not l.split(" ", 1)[1].startswith("fix:")]

# id -> (engine, technique, level text, level note, design ref)
CHECKS = {
    "C01": (
        "E2",
        "bounded-exhaustive enumeration of the C02 program space plus all composite constant exponents; for every accepted program the run-time dimension of every produced quantity is compared with the static type (both read from the implementation)",
        "All programs of the C02 space (112k quick) plus base^X for every constant exponent expression X of depth <= 2 over {2,3,-1,0.5,0.1,0.2,0.3,1/3} (as result, bound global, generic function body and list element) and struct/list shapes are run; for every program the checker accepts, every quantity produced (result, raw value of the bound global through the hook, list elements) must carry a unit whose dimension equals the inferred type, and run-time failures must be of the documented value-dependent kinds (never IncompatibleUnits, registry errors or panics).",
        "Trusted: the base-unit -> base-dimension map read from the unit registry; zero-valued quantities are treated as dimension-polymorphic (numbat's documented polymorphic zero, pinned by the suite); polymorphic static types are only checked for error kinds.",
        "§4 C01",
    ),
    "C02": (
        "E2",
        "bounded-exhaustive enumeration of dimension-typed programs without a well-typedness filter (every mis-dimensioned variant included) against an independent dimensional-analysis reference; rejected programs embedded at every position of a multi-statement input",
        "Every expression of depth <= 2 over a collision alphabet of units/variables with + - * / -> rational powers, unary minus, conditionals, lists and calls of inferred, annotated and generic functions is generated WITHOUT filtering for consistency, then again under 6 annotations, as unit and derived-dimension definitions and inside 9 function bodies with every call argument and (parameter, return) annotation pair (106k programs quick). An independent reference (dimension vectors derived from the units' run-time definitions, unification on + - -> comparison branches list arguments annotations) decides consistent / inconsistent / outside the quantifier; the checker must reject exactly the inconsistent ones with a type error and report the reference's type for the others. Every rejected depth-1 expression and every rejected definition form is embedded at every position of a multi-statement input: nothing may be printed, the session observation must be unchanged and every name the input would define must afterwards behave exactly as before (unknown to the type checker as well). The atom alphabet includes a subnormal literal (non-zero literals are never dimension-polymorphic).",
        "Trusted: the DimInfer reference (about 150 lines) and its exclusion rules; generic functions compared at call sites; depth-bounded.",
        "§4 C02",
    ),
    "C09": (
        "E2",
        "bounded-exhaustive type-directed enumeration of all well-typed expressions up to size N over a scaffold session, each compared with an independent big-step reference evaluator",
        "Every well-typed expression of size <= 5 (quick, 250k programs) / 6 (thorough) of type number, boolean, list, string, struct or function value over a scaffold session that forces shadowing, capture before redefinition of variables and functions, parameter and where-local shadowing, recursion, two-parameter calls, function values chosen by conditionals, reverse application, struct literals in both field orders, list construction and string interpolation is evaluated by the real pipeline (in a clone of the scaffold session) and by a reference evaluator with lexical scoping, call by value, lazy conditionals and IEEE arithmetic; values are compared structurally and bit-exactly.",
        "Trusted: the reference evaluator (about 250 lines) and its reading of the scoping rules, which the suite's own overwrite tests pin; expressions on which the reference raises are unspecified; number formatting inside strings is delegated to the implementation.",
        "§4 C09",
    ),
    "C08": (
        "E2",
        "exhaustive enumeration of all token strings up to length L over a 52-token alphabet, all character strings up to length 3/4 over a 76-character alphabet, all statement histories up to length 4/5 over two definition alphabets, every stdlib function x edge-argument tuple, plus every (template x extreme) input in an isolated child process",
        "(a) Every token string of length <= 3 (quick) / 4 (thorough) over one spelling of every token kind is interpreted in a fresh clone of a no-prelude and of a prelude session, the result echoed or the diagnostic rendered, inside catch_unwind with a panic hook recording the call site. (b) 53 templates (powers, unit powers, factorial runs, nested brackets/unary runs/lists/conditionals/calls, long chains, long literals, many statements, recursion depth ...) x extreme values or repetition counts, each in its own child process with a time and address-space limit; exit by signal, timeout or panic is the observation. (c) every standard-library function x every argument tuple from per-type edge alphabets, in child processes. (d) every history of <= 4/5 statements over an 18-statement alphabet that redefines one name as functions of different arity, variable, unit, struct and function value, and over a 12-statement alphabet of values, functions and variables capturing ans/_ — statement by statement and as one input. (e) every character string of length <= 3 over one representative of every tokenizer character class (76 characters; thorough: length 4 over 56). Crashes are keyed by panic call site, template or history class so one defect is one finding.",
        "Trusted: the harness builds numbat with debug assertions and overflow checks; random byte soup and contexts longer than L tokens outside the templates are not covered.",
        "§4 C08",
    ),
    "C10": (
        "E2",
        "exhaustive enumeration of all token strings up to length L over a 25-token alphabet (and all short literal strings, all single spelling substitutions) against a reference parser written from the documented EBNF and precedence table",
        "Every token string of length <= 5 (quick) / 6 (thorough) over one spelling of every operator tier, call, field access, conditionals and unicode exponents is parsed by the real parser (canonical S-expression through the hook) and by an independent recursive-descent reference derived from the documents; verdict MUST-PARSE-AS(tree) / MUST-REJECT / UNSPECIFIED, so both directions of the property are decided. Plus every single alternative-spelling substitution in all strings of length <= 3/4 and every character string of length <= 6/7 over the literal alphabet against the documented number forms (a documented literal must be read as that number; anything else must not be read as one number, and a maximal run of digits, '_' and '.' that is not a documented form must be rejected, never split into two numbers).",
        "Trusted: the reference parser (about 300 lines, from the EBNF + book table; where the two documents give different but value-equivalent trees either is accepted; fixed UNSPECIFIED classes listed in the evidence assumptions).",
        "§4 C10, Appendix A",
    ),
    "C22": (
        "E1",
        "exhaustive enumeration of all line sequences up to length n over a 12-line alphabet, each executed through the real binary in every input channel (file, -e, file + -e at every split) with the in-process library run as reference",
        "Every sequence of up to 2 (quick) / 3 (thorough) lines over an alphabet with succeeding lines, uses of earlier definitions and a failing line of every stage is run through the real numbat binary as a file, as -e arguments and as file + -e at every split point: exit status 0 iff the library accepts every input, stdout equals the library's printed values + result, stderr is empty on success and carries the diagnostics on failure, and the -e run equals the file run (source labels normalised).",
        "Trusted: the library run as reference for what each input yields; environment pinned (no config, no tty, empty HOME); stdout of an input that later fails is unspecified.",
        "§4 C22",
    ),
    "C19": (
        "E3",
        "full product of an instant alphabet x every Time unit x duration magnitudes (arithmetic laws) and instant alphabet x every zone of the tz database (zone conversion, format/parse round trip), against an integer-nanosecond reference timeline",
        "34 instants (epoch, leap days, range edges, sub-second parts, both sides of DST changes in 5 zones) x every prelude unit of dimension Time x 11 magnitudes: t+d must move the instant by d (integer-nanosecond reference), (t+d)-t = d, (t+d)-d = t within 1 ns + f64 resolution, out-of-range results must be range errors and in-range ones must not; every instant x every IANA zone: the instant is unchanged, the zone is the requested one, and datetime(format_datetime(F, t)) is the same instant for two full-precision formats.",
        "Trusted: jiff's timestamp of a parsed datetime as the instant it denotes (UTC strings cross-checked against an independent day-count); alphabet-bounded instants and magnitudes.",
        "§4 C19",
    ),
    "C23": (
        "E3",
        "exhaustive deterministic grids over each inverse pair's domain and every ordered k-subset of unit families x value grid for unit_list, with condition-scaled tolerances",
        "Temperature scales (all spellings and the sugar), unix time (s/ms/us variants), Julian date, trig/hyperbolic/exp-log/root pairs on grids (mantissa x exponent x sign, domain edges, all alphabet instants), and unit_list over every ordered k-subset (k<=3/4) of 5 unit families x 12 values: f(f^-1(y)) = y and f^-1(f(x)) = x within stated tolerances; mixed-unit parts are in the requested units, whole except the last and add up to the original.",
        "Trusted: per-case absolute tolerances derived from the pair's condition number; grids, not all floats.",
        "§4 C23",
    ),
    "C20": (
        "E3",
        "full product of input templates (every result/print/echo/info path and every diagnostic family that quotes user text) x HTML payload alphabet, rendered as the web front end does, judged by a strict tag/entity scanner",
        "Every (template x payload) case is interpreted and rendered exactly as numbat-wasm does in HTML mode (HtmlFormatter for result markup, HtmlWriter + codespan for diagnostics, plus info/list output); the produced HTML is scanned: every `<` must open or close one of the renderer's own span elements, spans must balance and every `&` must start a character reference.",
        "Trusted: the scanner's whitelist (only <span class=\"numbat-*\">); payload alphabet of 9 strings; templates enumerate the kinds of output that embed user text.",
        "§4 C20",
    ),
    "C24": (
        "E3",
        "complete enumeration of the finite set of (function, @example) pairs, each executed in a prelude+currencies session",
        "All (function, example) pairs exposed by the standard library's documentation metadata (cross-checked against the number of @example decorators in the module sources) are executed the way the documentation generator does; each must type-check and evaluate without error. Examples depending on command-line arguments are excluded by rule (text contains `args()`).",
        "Trusted: test exchange rates, TZ=UTC; 'runs' means interpret returns Ok.",
        "§4 C24",
    ),
    "C03": (
        "E3",
        "exhaustive sweep: every accepted unit identifier, every ordered unit pair under * / (+ -), every expression tree to depth 2-3 over a collision alphabet, against a reference evaluator built from the units' direct definitions",
        "L1 every (alias x prefix x spelling) identifier; L2 every ordered pair of all standard-library units under * and / and same-dimension pairs under + and -; L3 every well-dimensioned expression tree of bounded depth over a collision alphabet of units, prefixes, magnitudes and powers: each is evaluated by the interpreter, the raw result is converted to base units by the implementation and compared (value and dimension) with exact dimensional arithmetic computed by an independent reference from the units' direct definitions.",
        "Trusted: UnitDefs (direct definitions read from VM constants; own recursion, prefix table and power function); magnitudes from a fixed alphabet; tolerance 1e-9.",
        "§4 C03",
    ),
    "C04": (
        "E3",
        "exhaustive sweep over all ordered same-dimension unit pairs x magnitudes, chained conversions through every intermediate, targets with magnitudes, and all ordered pairs of compound unit terms per dimension",
        "Every ordered pair of same-dimension units x magnitude alphabet, conversions to a multiple of a unit, chained conversions (through a target with a magnitude and through intermediate units), and every ordered pair of same-dimension compound unit terms over the collision alphabet: the result must carry exactly the requested unit (factor list and display form), denote the same base-unit quantity as the source (reference), and convert back to the source magnitude.",
        "Trusted: UnitDefs reference; display coefficients compared at the 6 displayed digits; compound groups above a cap use an evenly spread subset.",
        "§4 C04",
    ),
    "C05": (
        "E3",
        "exhaustive sweep over all unit-pair products/quotients, all prefixed named-unit pairs over a prefix alphabet, all <=3-factor terms with powers; raw value (hook) vs displayed / printed / interpolated value",
        "For every product and quotient of two standard-library units, every product/quotient of prefixed named SI units over {none,nano,milli,kilo,giga}, every <=3-factor term with powers over the collision alphabet, and explicit conversions (every same-dimension unit pair; every product/quotient/square of two units of a 15-unit derived-SI alphabet as target, from the base-unit form of the same quantity): the raw value bound to a variable is compared with the value displayed as a result (dimension, base-unit magnitude, conversion back to the raw unit) and, on a fixed subset, with the print and string-interpolation texts read back as input; explicit conversions must be displayed in exactly the requested unit on all three paths.",
        "Trusted: UnitDefs reference; fixed magnitudes; texts compared at 6 significant digits.",
        "§4 C05",
    ),
    "C21": (
        "E3",
        "exhaustive product of a value alphabet (units x magnitudes incl. NaN, 0, 1-ulp neighbours) squared x tolerance alphabet, each assertion embedded between marker statements; predicate recomputed by the harness",
        "assert / assert_eq(a,b) / assert_eq(a,b,eps) over the full product of a value alphabet (3 dimensions x 3 units x 9 magnitudes) and a tolerance alphabet (incl. 0, negative, NaN, inf), plus booleans, strings and lists: the assertion must pass iff the documented predicate (computed by the harness from separately evaluated conversions) holds, report the matching error kind otherwise, and no statement after a failing assertion may run.",
        "Trusted: conversions a -> unit are taken from the interpreter (C04's subject); comparison arithmetic is the harness's; alphabet-bounded.",
        "§4 C21",
    ),
    "C14": (
        "E3",
        "exhaustive sweep of all k-digit decimals over an exponent range, integer windows, all binary exponents x structured mantissas, x a grid of format settings through the real formatter; displayed text judged against exact decimal rounding",
        "Every decimal with 6 (quick) / 7 (thorough) significant digits at every exponent -12..22 and both signs, 7/8-digit decimals at the notation switch points, +-2000 windows around 10^k and 2^p, every f64 binary exponent with structured mantissas, and a grid of (separator, grouping threshold, significant digits) settings: each is formatted by the real pretty-printer; after removing the separator the text must be a documented numeric literal whose value is the input rounded to the digits shown (exact or shortest-digits rounding), integers below 2^53 must show all digits, non-finite values the keywords.",
        "Trusted: Rust's correctly-rounded float formatting/parsing as reference arithmetic; mantissas beyond 7-8 digits are covered only through the structured bit patterns.",
        "§4 C14",
    ),
    "C15": (
        "E2",
        "bounded-exhaustive enumeration of statements per syntactic family; each accepted statement and its echo are interpreted by the real pipeline in two clones of the same pre-state and compared (acceptance, type, bit-exact value, printed output, second echo, probes of the defined names)",
        "Every fully parenthesised operator nesting of depth <= 2 over {2, 0.1, x2, m} (thorough: + s, 3) x {+ - * / ^ per -> juxtaposition, unary -, !, ², call} (thorough: + every depth-3 chain and a sixth atom), boolean/comparison nestings, conditionals in every operand position and as receiver of field access / call / conversion, type and dimension expressions of depth <= 2 (exponents 2,3,-1,1/3,-2/3,2/3,12,15,0) in every annotation position, inferred signatures with exponent denominators up to 15, where clauses, every decorator form x unit form, strings over an escape/interpolation/format-specifier alphabet (all pairs), temperature sugar in every operand position, date arithmetic, number spellings, procedure calls, the whole C02 program space and the C09 expression space (size <= 4 / 5): the echo must be accepted in the same pre-state, have the same type and bit-equal value, print the same, echo to itself, and leave the defined names behaving identically.",
        "Trusted: the echo is Statement::pretty_print as returned by interpret_with_settings; string decorators are only required to survive textually; bounded by the alphabets and depths listed. Six classes of echo defects are recorded findings (regrouping of sums/products and exponent spelling are pinned by the suite).",
        "§4 C15",
    ),
    "C16": (
        "E2",
        "bounded-exhaustive enumeration of unannotated function bodies; for each accepted body the printed signature is re-declared with the original body in a second session and every argument tuple of a value alphabet is called on both definitions (differential oracle on the real type checker and VM)",
        "Every unannotated body with <= 2 operator nodes over leaves {x, 2} / {x, y, 2} (unary -, ^e for e in {2,3,-1,1/2,1/3,1/5,2/3,0}, sqrt, sqr, abs, cbrt; binary * / + hypot2 mean head; conditionals) plus every binary operator over two one-node operands (thorough: full unary set, conditionals over them, every unary of a two-node body; 58 k quick / 265 k thorough bodies): the signature the checker prints must be accepted as annotation of the same body, print the same signature again, and for every tuple of argument values (Scalar, Length, Length², Time, Bool, polymorphic 0; thorough + Velocity, Mass, 1/Time, Length^15) both definitions must accept/reject alike with the same result type and bit-equal value.",
        "Trusted: the signature is the text before ` = ` of the echoed definition; sessions load only the five modules the alphabet needs; polymorphic dimension results (calls with the literal 0) are compared up to renaming/rescaling of quantified variables; bounded by the body size and the alphabets.",
        "§4 C16",
    ),
    "C13": (
        "E3",
        "complete enumeration of the finite identifier space (every alias x 34 prefixes x long/short spellings) against declarations scanned from the .nbt sources and an independent prefix table; plus whole-space long-session passes",
        "The complete set of (unit alias, prefix, spelling) strings of the whole standard library (about 44k identifiers) is enumerated. For each: the expected reading is computed from the unit declarations in the module sources and an independent SI/IEC prefix table; uniqueness of readings over the whole set, resolution by the session's prefix parser, evaluation through the full pipeline (tokenizer to VM), the prefix factor, and the display -> re-read round trip are checked; all accepted spellings are additionally evaluated in one session in both orders.",
        "Trusted: the .nbt declaration scanner and the hard-coded SI/IEC prefix table; user-defined units are out of scope (property is about the standard library).",
        "§4 C13",
    ),
    "C17": (
        "E1",
        "explicit-state exploration of the module-subset lattice through every import order (all ordered pairs / triples) on real sessions; confluence + idempotence invariants",
        "State = set of imported standard-library modules, action = `use M` for each of the 62 modules. All ordered pairs (quick) and all ordered triples (thorough) are executed on real sessions; every import must succeed, re-importing any already imported module must leave the observation unchanged, and every set must have one observation regardless of the order that reached it (names, bit-exact constant values, signatures, units, dimensions).",
        "Trusted: the static session observation as the notion of 'same names, types and constant values'; sets larger than k are covered only by the two all-module orders.",
        "§4 C17",
    ),
    "C06": (
        "E1",
        "explicit-state BFS over session histories on real Contexts (clone-and-step), deduplicated on a full observation hash; before/after + k-step continuation equality on every failing transition",
        "States are sessions reached by successful inputs over an alphabet that contains every failure kind (also inside imported modules, after successful definitions/imports, and in definition-free inputs after expression statements and procedure calls). In every reachable state (to the depth bound) every alphabet input is executed on a clone; for every failing one the complete observation (names, raw values, signatures, units, dimensions, imported modules, VM shape, outcome of every one-step continuation) must be identical before and after, and in the thorough tier all two-step continuations are compared as well. Two drivers: a no-prelude session over an in-memory module tree and a prelude session with real modules.",
        "Trusted: the observation function as the notion of 'behaves the same' (differences that need more than k further steps and touch nothing observed are missed); alphabet- and depth-bounded.",
        "§4 C06",
    ),
    "C07": (
        "E1",
        "depth-first enumeration of all all-successful input histories up to length n on real Contexts; per history all block compositions, real `save` command + replay, and forks, compared on full observations",
        "For every history (up to the length bound, over an alphabet of definitions, redefinitions, shadowing, function values, lists, prints, ans, imports) whose inputs all succeed one at a time: every composition into multi-line blocks, the file written by the real `save` command (once with a failing line entered before every good line, once with the good lines alone so that repeated inputs are adjacent) replayed line by line and as one input, and a copy taken before the last input, must all give the same definitions, raw values, printed output and results; copies must not affect each other.",
        "Trusted: the observation function; a batch is taken to report the last value any of its lines produces (numbat's documented multi-line behaviour); single-line inputs only.",
        "§4 C07",
    ),
    "C11": (
        "E3",
        "exhaustive sweep of all ordered same-dimension unit pairs x magnitude alphabet x operand shapes through the real interpreter; symmetry/trichotomy/NaN laws judged on every case",
        "Every ordered pair of same-dimension standard-library units (all modules loaded) is combined with a 12-value magnitude alphabet (incl. NaN, +-inf, +-0) and with the operand converted into the other unit (the near-equal case); all six relations are evaluated in both orders by the interpreter and the order-independence laws are judged bit-exactly on each case. Complete over the unit axis, alphabet-bounded over magnitudes.",
        "Trusted: nothing beyond the interpreter producing booleans; magnitudes outside the alphabet are not explored.",
        "§4 C11",
    ),
    "C12": (
        "E3",
        "exhaustive sweep of all ordered same-dimension unit pairs x magnitude pairs (+ all 6 orders of 3-operand sums) against a reference built from the units' direct definitions",
        "Every ordered same-dimension unit pair x magnitude pairs (incl. 0 and negatives) and prefixed operands: a+b, b+a, a-b, -(b-a) are evaluated by the interpreter; raw values (hook) are compared in base units against independent dimensional arithmetic and the displayed texts of both orders must coincide whenever the property's display clause applies. Three-operand sums are checked in all 6 orders.",
        "Trusted: UnitDefs reference (direct definitions read from the VM, own recursion and prefix table), tolerance 1e-9 relative.",
        "§4 C12",
    ),
    "C18": (
        "E1",
        "explicit-state BFS over operation histories of the real NumbatList (lockstep reference Vec), canonical-state deduplication",
        "All operation histories up to the depth bound over 2-4 live list handles are explored on the real NumbatList code; every reachable canonical state (sharing partition, full backing deque, views) is checked against a plain Vec through every public observer. Bounded-exhaustive: no history within the bound is skipped.",
        "Trusted: the lockstep reference (Vec<u64>), parametricity of NumbatList<T> in T, the canonical-key argument in DESIGN.md §C18; histories deeper than the bound are not covered.",
        "§4 C18",
    ),
}

NOT_YET = "check not built yet (planned in DESIGN.md §4; bounded-exhaustive enumeration applies)"

def main():
    props = [json.loads(l) for l in open("/verif/properties.jsonl")]
    checks = []
    na = []
    for p in props:
        pid = p["id"]
        if pid in CHECKS:
            eng, tech, text, note, ref = CHECKS[pid]
            checks.append({
                "property_id": pid,
                "quick_cmd": f"./check {pid} quick",
                "thorough_cmd": f"./check {pid} thorough",
                "evidence_file": f"/verif/evidence/{pid}.json",
                "replay_cmd_template": "./check --replay {path}",
                "engine": eng,
                "level_claimed": {"category": "model_checking", "text": text, "design_ref": ref},
                "level_note": note,
                "technique": tech,
            })
        else:
            na.append({"property_id": pid, "reason": NOT_YET})
    manifest = {
        "version": 1,
        "setup_cmd": "./setup.sh",
        "hooks": {
            "guard": "cargo feature `verif-hooks` of the numbat crate",
            "enable": "the harness crate /verif/harness depends on numbat by path (/repo/numbat) with features [html-formatter, verif-hooks]; `./check` rebuilds it from /repo's working tree on every call",
            "baseline_off_cmd": "cd /repo && cargo test --workspace --no-fail-fast --offline",
            "source_commits": hook_commits,
            "add_only": True,
        },
        "engines": [
            {"name": "E1", "path": "/verif/harness/src/props", "serves_properties": ["C06", "C07", "C17", "C18", "C22"],
             "kind_free_text": "explicit-state breadth-first search over the real transition function (Context sessions, NumbatList handles, CLI processes) with canonical-state deduplication and a lockstep reference / differential oracle"},
            {"name": "E2", "path": "/verif/harness/src/props", "serves_properties": ["C01", "C02", "C08", "C09", "C10", "C15", "C16"],
             "kind_free_text": "bounded-exhaustive enumeration of programs / token strings up to a size bound against a reference model"},
            {"name": "E3", "path": "/verif/harness/src/props", "serves_properties": ["C03", "C04", "C05", "C11", "C12", "C13", "C14", "C19", "C20", "C21", "C23", "C24"],
             "kind_free_text": "exhaustive sweep of a finite configuration product (units x units x magnitudes, identifiers, settings) against a reference model"},
        ],
        "checks": checks,
        "not_applicable": na,
        "notes": "Every check is bounded-exhaustive (no sampling); bounds, alphabets and what is not reached are in DESIGN.md §4 and §7. Exit 2 = machinery failure, never a verdict.",
    }
    json.dump(manifest, open("/verif/MANIFEST.json", "w"), indent=1)
    print("claimed:", [c["property_id"] for c in checks])

if __name__ == "__main__":
    main()
