//! C16 — inferred function signatures are valid, principal annotations.
//!
//! Every unannotated body with at most N operator nodes over the parameters {x} / {x, y} is
//! defined in a clone of the prelude session.  If the checker accepts it, the signature it prints
//! is put in front of the *original body text* and that annotated definition is made in a second
//! clone: it must be accepted, must print the same signature again, and every call from the
//! argument alphabet (all tuples) must be accepted/rejected alike with the same result type and
//! bit-equal value.

use crate::common::*;
use numbat::Context;
use serde_json::{Value as J, json};

const POWERS: [&str; 8] = ["2", "3", "(-1)", "(1/2)", "(1/3)", "(1/5)", "(2/3)", "0"];
pub const ARGS: [&str; 10] = ["2", "3 m", "true", "5 s", "0", "4 m^2", "6 m/s", "7 kg", "8 / s", "9 m^15"];

#[derive(Clone)]
pub struct Body {
    pub text: String,
    pub size: usize,
    pub leaf: bool,
}

fn leaves(params: &[&str], thorough: bool) -> Vec<Body> {
    let mut v: Vec<Body> = params.iter().map(|p| Body { text: p.to_string(), size: 0, leaf: true }).collect();
    v.push(Body { text: "2".into(), size: 0, leaf: true });
    // the dimension-polymorphic literal (one-parameter bodies of the thorough tier)
    if params.len() == 1 && thorough {
        v.push(Body { text: "0".into(), size: 0, leaf: true });
    }
    v
}

fn p(b: &Body) -> String {
    if b.leaf { b.text.clone() } else { format!("({})", b.text) }
}

fn unary(b: &Body, reduced: bool) -> Vec<Body> {
    let mut v = vec![];
    let mk = |t: String| Body { text: t, size: b.size + 1, leaf: false };
    v.push(mk(format!("-{}", p(b))));
    let pw: &[&str] = if reduced { &POWERS[..1] } else { &POWERS };
    for e in pw {
        v.push(mk(format!("{}^{e}", p(b))));
    }
    for f in ["sqrt", "sqr", "abs"] {
        v.push(mk(format!("{f}({})", b.text)));
    }
    if !reduced {
        v.push(mk(format!("cbrt({})", b.text)));
    }
    v
}

fn binary(a: &Body, b: &Body) -> Vec<Body> {
    let mk = |t: String| Body { text: t, size: a.size + b.size + 1, leaf: false };
    vec![
        mk(format!("{} * {}", p(a), p(b))),
        mk(format!("{} / {}", p(a), p(b))),
        mk(format!("{} + {}", p(a), p(b))),
        mk(format!("hypot2({}, {})", a.text, b.text)),
        mk(format!("mean([{}, {}])", a.text, b.text)),
        mk(format!("head([{}, {}])", a.text, b.text)),
    ]
}

fn cond(l: &Body, r: &Body, a: &Body, b: &Body) -> Body {
    cond_op(">", l, r, a, b)
}

/// `==` / `!=` do not force a dimension type on their operands (a parameter used only there stays
/// an unbounded type parameter in the printed signature)
fn cond_op(op: &str, l: &Body, r: &Body, a: &Body, b: &Body) -> Body {
    Body { text: format!("if {} {op} {} then {} else {}", p(l), p(r), p(a), p(b)), size: l.size + r.size + a.size + b.size + 1, leaf: false }
}

/// all bodies with at most `n` operator nodes (n <= 2 complete; n == 3: the families listed in the rule)
pub fn bodies(params: &[&str], thorough: bool) -> Vec<Body> {
    let l0 = leaves(params, thorough);
    let mut s1: Vec<Body> = vec![];
    for a in &l0 {
        s1.extend(unary(a, false));
        for b in &l0 {
            s1.extend(binary(a, b));
            for c in &l0 {
                for d in &l0 {
                    s1.push(cond(a, b, c, d));
                }
            }
        }
    }
    // a unit literal as a leaf (it mixes a concrete base dimension with the parameters' type
    // variables): every one-node body containing it, and every two-node body built from those or by
    // combining it with a one-node body
    let mut sunit: Vec<Body> = vec![];
    {
        let u = Body { text: "(2 m)".into(), size: 0, leaf: true };
        let mut s1u: Vec<Body> = unary(&u, false);
        s1u.extend(binary(&u, &u));
        for a in &l0 {
            s1u.extend(binary(a, &u));
            s1u.extend(binary(&u, a));
        }
        for t in &s1u {
            sunit.extend(unary(t, true));
            for a in l0.iter().chain(std::iter::once(&u)) {
                sunit.extend(binary(t, a));
                sunit.extend(binary(a, t));
            }
        }
        for t in s1.iter().filter(|t| !t.text.starts_with("if ")) {
            sunit.extend(binary(t, &u));
            sunit.extend(binary(&u, t));
        }
        sunit.extend(s1u);
    }
    // equality conditions: every one-node conditional, and two-node ones with the nested term in a branch
    let mut seq: Vec<Body> = vec![];
    for op in ["==", "!="] {
        for a in &l0 {
            for b in &l0 {
                for c in &l0 {
                    for d in &l0 {
                        seq.push(cond_op(op, a, b, c, d));
                    }
                    for t in &s1 {
                        seq.push(cond_op(op, a, b, t, c));
                        seq.push(cond_op(op, a, b, c, t));
                    }
                }
            }
        }
    }
    let mut s2: Vec<Body> = vec![];
    for t in &s1 {
        s2.extend(unary(t, false));
        for a in &l0 {
            s2.extend(binary(t, a));
            s2.extend(binary(a, t));
            for b in &l0 {
                for c in &l0 {
                    s2.push(cond(t, a, b, c));
                    s2.push(cond(a, t, b, c));
                    s2.push(cond(a, b, t, c));
                    s2.push(cond(a, b, c, t));
                }
            }
        }
    }
    // size 3: two size-1 operands under one binary operator / conditional (reduced unary set and
    // no conditionals inside in the quick tier), and in the thorough tier every unary of a size-2 body
    let s1r: Vec<Body> = {
        let mut v = vec![];
        for a in &l0 {
            v.extend(unary(a, !thorough));
            for b in &l0 {
                v.extend(binary(a, b));
            }
        }
        v
    };
    let mut s3: Vec<Body> = vec![];
    for a in &s1r {
        for b in &s1r {
            s3.extend(binary(a, b));
            if thorough {
                for c in &l0 {
                    s3.push(cond(a, b, c, c));
                    s3.push(cond(c, c, a, b));
                }
            }
        }
    }
    if thorough {
        for t in &s2 {
            s3.extend(unary(t, true));
        }
    }
    let mut all = l0;
    all.extend(s1);
    all.extend(s2);
    all.extend(s3);
    all.extend(seq);
    all.extend(sunit);
    let mut seen = std::collections::HashSet::new();
    all.retain(|b| seen.insert(b.text.clone()));
    all
}

fn sup_to_ascii(s: &str) -> String {
    let sup = |c: char| "⁰¹²³⁴⁵⁶⁷⁸⁹".chars().position(|d| d == c);
    let cs: Vec<char> = s.chars().collect();
    let mut out = String::new();
    let mut i = 0;
    while i < cs.len() {
        let neg = cs[i] == '⁻' && i + 1 < cs.len() && sup(cs[i + 1]).is_some();
        if neg || sup(cs[i]).is_some() {
            let mut j = if neg { i + 1 } else { i };
            let mut digits = String::new();
            while j < cs.len() && sup(cs[j]).is_some() {
                digits.push(char::from(b'0' + sup(cs[j]).unwrap() as u8));
                j += 1;
            }
            out.push_str(&if neg { format!("^(-{digits})") } else { format!("^{digits}") });
            i = j;
        } else {
            out.push(cs[i]);
            i += 1;
        }
    }
    out
}

/// accepted calls: bit-exact value and type; rejected calls: the stage only (messages name fresh
/// type variables)
fn outcome(r: &RunResult) -> String {
    match &r.outcome {
        Outcome::Err(e) => format!("rejected ({} error)", error_stage(e)),
        _ => {
            // A polymorphic dimension (`fu(0)`): any bare dimension type with a quantified dimension
            // variable in it denotes every dimension (exponents are rational, so `forall A. A²`,
            // `forall A B. A × B²` and `forall A. A × Length` have the same instances as `forall A. A`)
            let t = r.last_type.clone().unwrap_or_default();
            let t = if t.starts_with("forall ") && !t.contains('<') && !t.contains('[') && t.contains(": Dim.") { "forall A: Dim. A (any dimension)".to_string() } else { t };
            format!("{} : {}", r.fingerprint(), t)
        }
    }
}

fn outcome_long(r: &RunResult) -> String {
    match &r.outcome {
        Outcome::Err(e) => format!("rejected ({})", e.to_string().lines().next().unwrap_or("")),
        _ => outcome(r),
    }
}

/// The session the bodies are checked in: only the modules the body alphabet needs (the cost of
/// one `interpret` grows with the size of the session, and the type checker is the same).
pub const SESSION: &str = "use core::functions\nuse core::lists\nuse math::statistics\nuse math::geometry\nuse units::si";

pub fn base_ctx() -> Context {
    let mut ctx = fresh_builtin_ctx();
    let r = run(&mut ctx, SESSION);
    assert!(r.is_ok(), "C16 session: {:?}", r.err_string());
    ctx
}

/// Two sessions that evolve in lockstep: `fu` is (re)defined without annotations in the first and
/// with the printed signature in the second.  Both are refreshed from the pristine session every
/// 32 bodies (every input adds a source file to the session, which makes later inputs slower).
pub struct Pair {
    pub c1: Context,
    pub c2: Context,
    pub used: usize,
}

impl Pair {
    pub fn new(base: &Context) -> Self {
        Pair { c1: base.clone(), c2: base.clone(), used: 0 }
    }
}

pub fn judge(base: &Context, pair: &mut Pair, params: &[&str], body: &str, nargs: usize) -> Result<&'static str, String> {
    if pair.used >= 32 {
        *pair = Pair::new(base);
    }
    pair.used += 1;
    let r = judge_in(pair, params, body, nargs);
    if r.is_err() {
        // start the next body from a pristine pair
        pair.used = usize::MAX / 2;
    }
    r
}

fn judge_in(pair: &mut Pair, params: &[&str], body: &str, nargs: usize) -> Result<&'static str, String> {
    // quick tier: one value fewer for two-parameter bodies
    let alphabet = &ARGS[..if nargs < ARGS.len() && params.len() > 1 { nargs - 2 } else { nargs }];
    let def = format!("fn fu({}) = {body}", params.join(", "));
    let Pair { c1, c2, .. } = pair;
    let r1 = run(c1, &def);
    if let Some(pn) = r1.panic() {
        return Err(format!("PANIC {} at {}", pn.message, pn.site()));
    }
    if !r1.is_ok() {
        return Ok("body rejected");
    }
    let echo = r1.statements.join("\n");
    let Some(pos) = echo.find(" = ") else {
        return Err(format!(" is echoed without a body: `{echo}`"));
    };
    let sig = &echo[..pos];
    let annotated = format!("{sig} = {body}");
    let r2 = run(c2, &annotated);
    if let Some(pn) = r2.panic() {
        return Err(format!("PANIC {} at {} for `{annotated}`", pn.message, pn.site()));
    }
    if !r2.is_ok() {
        return Err(format!(" is given the signature `{sig}`, but `{annotated}` is rejected: {}", r2.err_string().unwrap_or_default().lines().next().unwrap_or("")));
    }
    let echo2 = r2.statements.join("\n");
    let sig2 = echo2.find(" = ").map(|q| &echo2[..q]).unwrap_or("");
    if sup_to_ascii(sig) != sup_to_ascii(sig2) {
        return Err(format!(" is given the signature `{sig}`; declared with it, the checker prints the different signature `{sig2}`"));
    }
    // every call tuple
    let n = params.len();
    let total = alphabet.len().pow(n as u32);
    let mut accepted = 0;
    for k in 0..total {
        let mut kk = k;
        let mut args = vec![];
        for _ in 0..n {
            args.push(alphabet[kk % alphabet.len()]);
            kk /= alphabet.len();
        }
        let call = format!("fu({})", args.join(", "));
        // calls do not change the session (a failed input leaves no trace: C06)
        let q1 = run(c1, &call);
        let q2 = run(c2, &call);
        if q1.is_ok() {
            accepted += 1;
        }
        if outcome(&q1) != outcome(&q2) {
            return Err(format!(" is given the signature `{sig}`; `{call}` gives {} with the inferred definition but {} with the annotated one", outcome_long(&q1), outcome_long(&q2)));
        }
    }
    if accepted == 0 { Ok("equivalent, no call of the alphabet accepted") } else { Ok("equivalent") }
}

pub fn check(rep: &mut Report) {
    let thorough = rep.tier == Tier::Thorough;
    let base = base_ctx();
    let mut cases: Vec<(&'static [&'static str], Body)> = vec![];
    const P1: [&str; 1] = ["x"];
    const P2: [&str; 2] = ["x", "y"];
    for b in bodies(&P1, thorough) {
        cases.push((&P1, b));
    }
    for b in bodies(&P2, thorough) {
        if b.text.contains('y') {
            cases.push((&P2, b));
        }
    }
    if std::env::var("C16_COUNT").is_ok() {
        let mut by: std::collections::BTreeMap<(usize, usize, bool), usize> = Default::default();
        for (p, b) in &cases {
            *by.entry((p.len(), b.size, b.text.contains("if "))).or_default() += 1;
        }
        eprintln!("{by:?}");
        rep.machinery_error("count only");
        return;
    }
    let n = cases.len();
    let nargs = if thorough { ARGS.len() } else { 6 };
    let outs: Vec<Result<&'static str, String>> = par_map(n, || Pair::new(&base), |pair, i| watch::watched("C16", "body", &cases[i].1.text, || judge(&base, pair, cases[i].0, &cases[i].1.text, nargs)));
    rep.states = n as u64;
    let mut counts: std::collections::BTreeMap<&'static str, u64> = Default::default();
    let mut calls = 0u64;
    for (i, o) in outs.into_iter().enumerate() {
        rep.evaluations += 1;
        let (params, b) = &cases[i];
        let shown = format!("fn fu({}) = {}", params.join(", "), b.text);
        match o {
            Ok(v) => {
                *counts.entry(v).or_default() += 1;
                if v != "body rejected" {
                    let c = ((if nargs < ARGS.len() && params.len() > 1 { nargs - 2 } else { nargs }) as u64).pow(params.len() as u32);
                    calls += c;
                    rep.transitions += c;
                    rep.validated += 1;
                    rep.nontrivial_extra += 1;
                    if i % 211 == 5 {
                        rep.outcome(&shown);
                    }
                    if i % 4001 == 9 && rep.samples.len() < 10 {
                        rep.sample(json!({"definition": shown, "verdict": v}));
                    }
                }
            }
            Err(e) => {
                let replay = json!({"params": params, "body": b.text});
                if e.starts_with("PANIC") {
                    let site = e.split(" at ").last().unwrap_or("").split(' ').next().unwrap_or("").to_string();
                    rep.violation(format!("callsite:{site}"), format!("`{shown}`: {e}"), replay);
                } else {
                    rep.violation(format!("input:{shown}"), format!("`{shown}`{e}"), replay);
                }
            }
        }
    }
    rep.set("bodies", json!(n));
    rep.set("verdicts", json!(counts));
    rep.set("calls_compared", json!(calls * 2));
    rep.set("argument_alphabet", json!(&ARGS[..nargs]));
    rep.rule = "every unannotated body with <= 2 operator nodes over leaves {x, 2} (thorough: + the polymorphic 0) / {x, y, 2} (unary: -, ^e for e in {2,3,-1,1/2,1/3,1/5,2/3,0}, sqrt, sqr, abs, cbrt; binary: * / + hypot2 mean head; conditionals `if l > r then a else b`; plus `==` / `!=` conditions for every one-node conditional and for two-node ones with the nested term in a branch), plus every one- and two-node body containing the unit literal `2 m` as a leaf (conditionals excepted), plus every binary operator applied to two one-node operands (thorough: full unary set, conditionals over them, and every unary of a two-node body); for each accepted body: printed signature + original body re-declared in a second clone, signatures compared, and every argument tuple from the value alphabet (quick 6: Scalar, Length, Bool, Time, the polymorphic 0, Length² — the first 4 for two-parameter bodies; thorough 10: + Velocity, Mass, 1/Time, Length^15) called on both; non-trivial = accepted bodies (each compared on all call tuples)".into();
    rep.assumptions = vec![
        "the printed signature is the text before ` = ` of Statement::pretty_print of the accepted definition".into(),
        "the session loads only core::functions, core::lists, math::statistics, math::geometry and units::si; both definitions use the same function name in two copies of it that evolve in lockstep (refreshed every 32 bodies), so results and error texts are compared literally; exponent spelling (A² vs A^2) is not compared".into(),
    ];
}

pub fn replay(case: &J) -> i32 {
    let params: Vec<String> = case["params"].as_array().map(|a| a.iter().filter_map(|x| x.as_str().map(|s| s.to_string())).collect()).unwrap_or_default();
    let pr: Vec<&str> = params.iter().map(|s| s.as_str()).collect();
    let body = case["body"].as_str().unwrap_or("");
    println!("fn fu({}) = {body}", pr.join(", "));
    let base = base_ctx();
    let mut pair = Pair::new(&base);
    match judge(&base, &mut pair, &pr, body, ARGS.len()) {
        Ok(v) => {
            println!("{v}: no violation on this tree");
            0
        }
        Err(e) => {
            println!("VIOLATION reproduced: the body{e}");
            1
        }
    }
}
