//! C06 — a failing input leaves the session unchanged.
//!
//! Explicit-state BFS over session histories on real `Context`s.  States are reached by
//! successful inputs; in every state every input of the alphabet is tried on a clone, and whenever
//! it fails the full observation (names, raw values, signatures, imported modules, VM shape and
//! the outcome of every one-step continuation) must be identical before and after; in the deeper
//! tiers two-step continuations are compared as well.

use crate::common::*;
use crate::obs::*;
use numbat::Context;
use serde_json::{Value as J, json};
use std::collections::HashSet;

pub struct Driver {
    pub name: &'static str,
    pub base: Context,
    pub alphabet: Vec<String>,
}

pub const TINY_MODULES: &[(&str, &str)] = &[
    (
        "mini",
        "dimension Scalar = 1\ndimension Length\n@metric_prefixes\n@aliases(m: short)\nunit meter: Length\nfn len<A>(xs: List<A>) -> Scalar\nfn head<A>(xs: List<A>) -> A\nfn tail<A>(xs: List<A>) -> List<A>\nfn cons<A>(x: A, xs: List<A>) -> List<A>\nfn cons_end<A>(x: A, xs: List<A>) -> List<A>\n",
    ),
    ("ma", "let ma_x = 1"),
    ("mb", "use ma\nlet mb_y = ma_x + 1"),
    ("mc", "use mb\nfn mc_f(x) = x + mb_y"),
    ("m_rt", "let m_rt_ok = 1\nlet m_rt_bad = 1 / 0"),
    ("m_parse", "let m_parse_ok = 1\nlet = )"),
    ("m_type", "let m_type_ok = 1\nlet m_type_bad: Length = 1"),
    ("m_clash", "unit mq\nlet mq = 1"),
    ("m_nested", "use ma\nuse m_rt"),
    ("m_nested2", "use m_rt\nuse ma"),
];

pub fn tiny_base() -> Context {
    let mut ctx = Context::new(MemImporter::new(TINY_MODULES));
    ctx.load_currency_module_on_demand(false);
    let r = run(&mut ctx, "use mini");
    assert!(r.is_ok(), "mini prelude failed: {:?}", r.err_string());
    ctx
}

pub fn driver_a() -> Driver {
    let alphabet: Vec<&str> = vec![
        // (mostly) successful inputs
        "let a = 1",
        "let a = 2 m",
        "fn f(x) = x + a",
        "dimension D",
        "unit u: D",
        "struct S { x: Scalar }",
        "use ma",
        "use mb",
        "use mc",
        "a + 1",
        "f(2)",
        "ans",
        "let b = a\nb",
        // failing inputs of every kind, each also after successful statements / imports
        "use nonexistent",
        "let = )",
        "let w0 = 1\nlet = )",
        "let w1 = 1\nlet meter = 2",
        "let w2 = 1\nlet w3: Length = 1",
        "let w4 = 1\nlet w5 = 1/0",
        "let w6 = 1\nassert(1 == 2)",
        "use ma\nlet w7 = 1/0",
        "use mb\nlet w7b = 1 + (2 m)",
        "use ma\nlet = )",
        "use m_rt",
        "use m_parse",
        "use m_type",
        "use m_clash",
        "use m_nested",
        "use m_nested2",
        "use ma\nuse nonexistent",
        // an import followed by every kind of name-resolution failure
        "use ma\nlet meter = 2",
        "use mb\nlet ans = 1",
        "use mc\nfn meter(x) = x",
        "use ma\nunit a",
        "dimension E\nunit v: E\nlet w8 = 1/0",
        "struct T { y: Scalar }\nlet w9 = 1/0",
        "fn g(x) = x\nlet w10 = 1/0",
        "print(\"p\")\nlet w11 = 1/0",
        "let a = 1/0",
        "fn f(x) = x + nonexistent_var",
        "7\nlet w12 = 1/0",
        "unit u2: Length = 3 m\nlet w13 = 1/0",
        // definition-free failing inputs: expression statements (they set the last result) and
        // procedure calls before the failure
        "8\n1/0",
        "\"leaked\"\nassert(1 == 2)",
        "a + 1\nf(2)\n1/0",
        "print(\"p\")\n1/0",
        "9 m\n1 + (2 m)",
        "1/0",
    ];
    Driver {
        name: "tiny",
        base: tiny_base(),
        alphabet: alphabet.iter().map(|s| s.to_string()).collect(),
    }
}

pub fn driver_b() -> Driver {
    let alphabet: Vec<&str> = vec![
        "let a = 1",
        "let a = 2 m",
        "fn f(x) = x + a",
        "use extra::algebra",
        "use numerics::solve",
        "use units::hartree",
        "f(2 m)",
        "quadratic_equation(1, 0, -1)",
        "ans",
        "use nonexistent::module",
        "let = )",
        "let w1 = 1\nlet meter = 2",
        "let w2 = 1\nlet w3: Length = 1 s",
        "use extra::algebra\nlet w5 = 1/0",
        "use numerics::solve\nlet w5b = 1 m + 1 s",
        "use units::hartree\nuse nonexistent::module",
        "use extra::algebra\nlet meter = 2",
        "use numerics::solve\nlet _ = 1",
        "use units::hartree\nfn meter(x) = x",
        "use extra::color\nassert(1 == 2)",
        "dimension E\nunit v: E\nlet w8 = 1/0",
        "let a = 1/0",
        "unit smoot2: Length = 1.7 m\nlet w9 = sqrt(-1 m)\nerror(\"stop\")",
        "8 m\n1/0",
        "\"leaked\"\nassert(1 == 2)",
        "3 s\nprint(4)\nerror(\"stop\")",
    ];
    Driver {
        name: "prelude",
        base: prelude_ctx(),
        alphabet: alphabet.iter().map(|s| s.to_string()).collect(),
    }
}

pub fn replay_history(d: &Driver, hist: &[u8]) -> Context {
    let mut ctx = d.base.clone();
    for &a in hist {
        let _ = run(&mut ctx, &d.alphabet[a as usize]);
    }
    ctx
}

struct ActResult {
    state: usize,
    action: u8,
    /// Some(key) if the input succeeded (key = 0 when keys are not wanted)
    succ: Option<u128>,
    failed: bool,
    panic: Option<String>,
    violation: Option<(String, String)>, // kind, description
    conts_compared: u64,
}

fn try_action(
    d: &Driver,
    ctx: &Context,
    obs_before: &str,
    state: usize,
    ai: usize,
    k: usize,
    want_key: bool,
) -> ActResult {
    let a = &d.alphabet[ai];
    let mut res = ActResult {
        state,
        action: ai as u8,
        succ: None,
        failed: false,
        panic: None,
        violation: None,
        conts_compared: 0,
    };
    let mut c2 = ctx.clone();
    let r = run(&mut c2, a);
    if let Some(p) = r.panic() {
        res.panic = Some(format!("{} at {}", p.message, p.site()));
        return res;
    }
    if r.is_ok() {
        res.succ = Some(if want_key {
            hash128(&full_obs(&c2, &d.alphabet))
        } else {
            0
        });
        return res;
    }
    res.failed = true;
    let obs_after = full_obs(&c2, &d.alphabet);
    res.conts_compared += d.alphabet.len() as u64;
    if obs_after != obs_before {
        res.violation = Some(("obs".into(), first_diff(obs_before, &obs_after)));
        return res;
    }
    if k >= 2 {
        // two-step continuations: w1 on both, then w2 on both
        for w1 in &d.alphabet {
            let mut x = ctx.clone();
            let mut y = c2.clone();
            let rx = run(&mut x, w1);
            let ry = run(&mut y, w1);
            if rx.panic().is_some() || ry.panic().is_some() {
                continue;
            }
            for w2 in &d.alphabet {
                let mut x2 = x.clone();
                let mut y2 = y.clone();
                let r1 = run(&mut x2, w2);
                let r2 = run(&mut y2, w2);
                res.conts_compared += 1;
                if r1.panic().is_some() || r2.panic().is_some() {
                    continue;
                }
                let (o1, o2) = (outcome_text(&r1), outcome_text(&r2));
                if o1 != o2 {
                    res.violation = Some((
                        "cont2".into(),
                        format!(
                            "continuation {:?} then {:?}: without the failing input `{}`, after it `{}`",
                            w1, w2, o1, o2
                        ),
                    ));
                    return res;
                }
            }
        }
    }
    res
}

pub fn explore(rep: &mut Report, d: &Driver, depth: usize, k: usize) {
    let mut seen: HashSet<u128> = HashSet::new();
    let k0 = hash128(&full_obs(&d.base, &d.alphabet));
    seen.insert(k0);
    // replay-determinism self-check
    {
        let h: Vec<u8> = (0..d.alphabet.len().min(6) as u8).collect();
        let o1 = full_obs(&replay_history(d, &h), &d.alphabet);
        let o2 = full_obs(&replay_history(d, &h), &d.alphabet);
        if o1 != o2 {
            rep.machinery_error(format!(
                "driver {}: replaying one history twice gave different observations: {}",
                d.name,
                first_diff(&o1, &o2)
            ));
            return;
        }
    }
    let mut frontier: Vec<Vec<u8>> = vec![vec![]];
    let mut states = 1u64;
    let mut transitions = 0u64;
    let mut failing = 0u64;
    let mut conts = 0u64;
    let mut levels = vec![1u64];
    let mut panics = 0u64;
    let mut completed = 0;
    for dd in 0..=depth {
        // expand every state at this level (also the last level: failing inputs are checked
        // there; successors are just not keyed / enqueued)
        let last = dd == depth;
        let prepared: Vec<(Context, String)> = par_map(
            frontier.len(),
            || (),
            |_, i| {
                let ctx = replay_history(d, &frontier[i]);
                let o = full_obs(&ctx, &d.alphabet);
                (ctx, o)
            },
        );
        let na = d.alphabet.len();
        let results: Vec<ActResult> = par_map(
            frontier.len() * na,
            || (),
            |_, j| {
                let (si, ai) = (j / na, j % na);
                try_action(d, &prepared[si].0, &prepared[si].1, si, ai, k, !last)
            },
        );
        let mut next = vec![];
        let hist_text = |h: &[u8]| -> Vec<String> {
            h.iter().map(|a| d.alphabet[*a as usize].clone()).collect()
        };
        for r in results {
            transitions += 1;
            conts += r.conts_compared;
            if r.failed {
                failing += 1;
            }
            if r.panic.is_some() {
                panics += 1;
            }
            let hist = &frontier[r.state];
            if let Some((kind, desc)) = &r.violation {
                let failing_input = &d.alphabet[r.action as usize];
                let h = hist_text(hist);
                rep.violation(
                    format!(
                        "history:{}:{}|failing:{}",
                        d.name,
                        h.join("⏎⏎").replace('\n', "⏎"),
                        failing_input.replace('\n', "⏎")
                    ),
                    format!(
                        "[{}] after history {:?} the failing input {:?} changed the session ({kind}): {desc}",
                        d.name, h, failing_input
                    ),
                    json!({"driver": d.name, "history": hist, "history_text": h, "failing": r.action, "failing_text": failing_input, "k": k}),
                );
            }
            if let (Some(key), false) = (r.succ, last) {
                if seen.insert(key) {
                    states += 1;
                    let mut h = hist.clone();
                    h.push(r.action);
                    if rep.samples.len() < 6 && h.len() >= 2 {
                        rep.sample(json!({"driver": d.name, "state reached by": hist_text(&h)}));
                    }
                    next.push(h);
                }
            }
        }
        completed = dd;
        if dd == depth {
            break;
        }
        levels.push(next.len() as u64);
        frontier = next;
        if frontier.is_empty() {
            break;
        }
        if rep.violations.len() > 500 {
            rep.exhaustive = false;
            break;
        }
    }
    rep.states += states;
    rep.transitions += transitions;
    rep.validated += failing;
    rep.evaluations += transitions + conts;
    rep.nontrivial_extra += failing;
    rep.set(
        &format!("driver_{}_depth{}_k{}", d.name, depth, k),
        json!({"alphabet": d.alphabet.len(), "depth_completed": completed, "continuation_depth": k,
               "states": states, "transitions": transitions, "failing_transitions_checked": failing,
               "continuations_compared": conts, "panicking_inputs_skipped": panics,
               "states_per_level": levels}),
    );
    for s in &seen {
        rep.outcomes.insert(*s as u64);
    }
}

pub fn check(rep: &mut Report) {
    rep.rule = "BFS over session histories (real Context, states reached by successful inputs, deduplicated on the hash of the full observation incl. all one-step probes); every alphabet input is tried in every state; non-trivial = failing transitions on which before/after observations (and k-step continuations) were compared".into();
    rep.assumptions = vec![
        "two sessions with identical full observation (names, raw values, signatures, units, dimensions, imported modules, outcome of every alphabet input) are merged; a difference that needs >= 2 further steps is only found through the explicit k=2 continuation comparison".into(),
        "errors are compared by kind and message (NumbatError::to_string), not by spans or source labels".into(),
        "inputs that panic are C08's subject and are skipped here (counted)".into(),
    ];
    let a = driver_a();
    let b = driver_b();
    match rep.tier {
        Tier::Quick => {
            explore(rep, &a, 4, 1);
            explore(rep, &b, 2, 1);
        }
        Tier::Thorough => {
            explore(rep, &a, 6, 1);
            explore(rep, &a, 3, 2);
            explore(rep, &b, 3, 1);
            explore(rep, &b, 1, 2);
        }
    }
}

pub fn replay(case: &J) -> i32 {
    let d = if case["driver"] == "prelude" {
        driver_b()
    } else {
        driver_a()
    };
    let hist: Vec<u8> = case["history"]
        .as_array()
        .map(|a| a.iter().map(|x| x.as_u64().unwrap() as u8).collect())
        .unwrap_or_default();
    let a = case["failing"].as_u64().unwrap_or(0) as usize;
    let k = case["k"].as_u64().unwrap_or(1) as usize;
    for h in &hist {
        println!(">>> {}", d.alphabet[*h as usize].replace('\n', "\n... "));
    }
    println!(">>> {}    <-- failing input", d.alphabet[a].replace('\n', "\n... "));
    let ctx = replay_history(&d, &hist);
    let o = full_obs(&ctx, &d.alphabet);
    let r = try_action(&d, &ctx, &o, 0, a, k, false);
    let mut found = false;
    if let Some((kind, desc)) = &r.violation {
        println!("VIOLATION reproduced ({kind}): {desc}");
        found = true;
    }
    if found {
        1
    } else {
        println!("no violation on this tree");
        0
    }
}
