#!/usr/bin/env python3
"""Rewrites the seed table of DESIGN.md §8.4 (between the seed-table markers) from seeded/*/meta.json."""
import json, glob, os, re
rows = []
missed = []
for d in sorted(glob.glob('/verif/seeded/*')):
    m = json.load(open(d + '/meta.json'))
    det = m.get('detection', {})
    name = os.path.basename(d)
    files = ', '.join(m.get('files_changed', [])).replace('numbat/src/', '').replace('numbat/', '') or '(my own first C11 repair)'
    summ = m['summary'].split('. ')[0][:170].replace('|', '/')
    hist = det.get('history', '')
    if 'MISSED' in hist:
        missed.append(name)
        first = '**missed at first** — ' + re.sub(r'^[^:]*MISSED it[^:]*: ?', '', hist)[:300]
    elif hist:
        first = hist[:260]
    else:
        first = 'caught by the first version it met'
    rows.append(f"| {name} | {files} | {summ} | {det.get('check')} | {first.replace('|','/')} |")
table = "| seed | touches | change (first sentence of the agent's summary) | detected by | history |\n|------|---------|-----------------------------------------------|-------------|---------|\n" + "\n".join(rows)
by_round = {}
for d in sorted(glob.glob('/verif/seeded/*')):
    name = os.path.basename(d)
    suffix = name.split('_', 1)[1]
    r = suffix if suffix in ('a', 'b', 'c', 'd', 'e', 'f') else 'other'
    k = by_round.setdefault(r, [0, 0])
    k[0] += 1
    if name in missed:
        k[1] += 1
rounds = "; ".join(f"round `_{r}`: {v[1]} of {v[0]} missed at first" for r, v in sorted(by_round.items()) if r != 'other')
table += f"\n\n{len(rows)} seeds kept ({rounds}); missed by the first version of the check they met: {', '.join(missed)} ({len(missed)})."
s = open('/verif/DESIGN.md').read()
a = s.index('<!-- seed-table-begin -->') + len('<!-- seed-table-begin -->')
b = s.index('<!-- seed-table-end -->')
s = s[:a] + "\n" + table + "\n" + s[b:]
open('/verif/DESIGN.md', 'w').write(s)
print(len(rows), 'seeds,', len(missed), 'first missed')
