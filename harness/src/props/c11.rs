//! C11 — comparisons do not depend on operand order.
//!
//! Exhaustive sweep: every ordered pair of same-dimension prelude units × magnitude alphabet ×
//! operand shapes; all six relations in both orders, evaluated by the real interpreter.

use crate::common::*;
use crate::units::*;
use numbat::value::Value;
use serde_json::{Value as J, json};

const RELS: [&str; 12] = [
    "A == B", "B == A", "A != B", "B != A", "A < B", "B > A", "A <= B", "B >= A", "A > B", "B < A",
    "A >= B", "B <= A",
];

fn is_nan_mag(x: &str) -> bool {
    x == "NaN"
}

/// returns Err(description) if a law is broken
pub fn judge(bools: &[bool], nan: bool) -> Result<(), String> {
    let (eq_ab, eq_ba, ne_ab, ne_ba) = (bools[0], bools[1], bools[2], bools[3]);
    let (lt_ab, gt_ba, le_ab, ge_ba) = (bools[4], bools[5], bools[6], bools[7]);
    let (gt_ab, lt_ba, ge_ab, le_ba) = (bools[8], bools[9], bools[10], bools[11]);
    if eq_ab != eq_ba {
        return Err(format!("A==B is {eq_ab} but B==A is {eq_ba}"));
    }
    if ne_ab != !eq_ab {
        return Err(format!("A!=B is {ne_ab} but A==B is {eq_ab}"));
    }
    if ne_ba != !eq_ba {
        return Err(format!("B!=A is {ne_ba} but B==A is {eq_ba}"));
    }
    if lt_ab != gt_ba {
        return Err(format!("A<B is {lt_ab} but B>A is {gt_ba}"));
    }
    if le_ab != ge_ba {
        return Err(format!("A<=B is {le_ab} but B>=A is {ge_ba}"));
    }
    if gt_ab != lt_ba {
        return Err(format!("A>B is {gt_ab} but B<A is {lt_ba}"));
    }
    if ge_ab != le_ba {
        return Err(format!("A>=B is {ge_ab} but B<=A is {le_ba}"));
    }
    if nan {
        if lt_ab || le_ab || gt_ab || ge_ab || gt_ba || ge_ba || lt_ba || le_ba {
            return Err("an ordering comparison involving NaN is true".into());
        }
    } else {
        let n = [lt_ab, eq_ab, gt_ab].iter().filter(|b| **b).count();
        if n != 1 {
            return Err(format!(
                "trichotomy: A<B={lt_ab} A==B={eq_ab} A>B={gt_ab} ({n} of them hold)"
            ));
        }
        // <= and >= must be consistent with < == >
        if le_ab != (lt_ab || eq_ab) {
            return Err(format!("A<=B is {le_ab} but A<B={lt_ab}, A==B={eq_ab}"));
        }
        if ge_ab != (gt_ab || eq_ab) {
            return Err(format!("A>=B is {ge_ab} but A>B={gt_ab}, A==B={eq_ab}"));
        }
    }
    Ok(())
}

pub fn program(a: &str, b: &str) -> String {
    let rels: Vec<String> = RELS
        .iter()
        .map(|r| r.replace('A', "qa").replace('B', "qb"))
        .collect();
    format!("let qa = {a}\nlet qb = {b}\n[{}]", rels.join(", "))
}

pub fn eval_case(ev: &mut Evaluator, a: &str, b: &str) -> Result<Vec<bool>, String> {
    let r = ev.eval(&program(a, b));
    ev.reset(); // the `let`s must not pile up
    match r.value() {
        Some(Value::List(l)) => {
            let bs: Vec<bool> = l
                .iter()
                .filter_map(|v| match v {
                    Value::Boolean(b) => Some(*b),
                    _ => None,
                })
                .collect();
            if bs.len() == 12 {
                Ok(bs)
            } else {
                Err("unexpected result shape".into())
            }
        }
        _ => Err(r.err_string().unwrap_or_else(|| "no value".into())),
    }
}

struct CaseOut {
    a: String,
    b: String,
    nan: bool,
    result: Result<Vec<bool>, String>,
    nontrivial: bool,
}

pub fn check(rep: &mut Report) {
    let base = all_ctx();
    let defs = match UnitDefs::build(&base) {
        Ok(d) => d,
        Err(e) => {
            rep.machinery_error(e);
            return;
        }
    };
    let pairs = defs.same_dim_pairs(true);
    let mut mags: Vec<&str> = M12.to_vec();
    if rep.tier == Tier::Thorough {
        mags.extend(M_EXTREME);
    }
    // prefixed variants (thorough): units accepting metric prefixes get kilo/milli on the long name
    let mut cases: Vec<(String, String, bool)> = vec![];
    for (ua, ub) in &pairs {
        for x in &mags {
            let a = format!("({x} * {ua})");
            // same magnitude in the other unit
            cases.push((a.clone(), format!("({x} * {ub})"), is_nan_mag(x)));
            // same physical quantity, converted into the other unit (the near-equal case)
            if ua != ub {
                cases.push((a.clone(), format!("({a} -> {ub})"), is_nan_mag(x)));
            }
        }
    }
    // against the polymorphic literal `0` (what library code like `if x > 0` does)
    for ua in defs.units.keys() {
        for x in &mags {
            cases.push((format!("({x} * {ua})"), "0".to_string(), is_nan_mag(x)));
        }
    }
    if rep.tier == Tier::Thorough {
        // cross magnitudes and prefixed operands
        for (ua, ub) in &pairs {
            if ua == ub {
                continue;
            }
            for (x, y) in [("1", "-2.5"), ("40.5", "0.1"), ("0", "-0"), ("inf", "1e30"), ("-inf", "inf"), ("NaN", "NaN"), ("1e-7", "0")] {
                cases.push((format!("({x} * {ua})"), format!("({y} * {ub})"), x == "NaN" || y == "NaN"));
            }
            let ia = &defs.units[ua];
            let ib = &defs.units[ub];
            for (pl, _) in [("kilo", 3), ("milli", -3)] {
                if ia.metric {
                    if let Some((alias, _, _)) = ia.aliases.iter().find(|(_, _, long)| *long) {
                        let a = format!("(40.5 * {pl}{alias})");
                        cases.push((a.clone(), format!("({a} -> {ub})"), false));
                        if ib.metric {
                            if let Some((alias_b, _, _)) = ib.aliases.iter().find(|(_, _, long)| *long) {
                                cases.push((a.clone(), format!("({a} -> {pl}{alias_b})"), false));
                            }
                        }
                    }
                }
            }
        }
    }
    let n = cases.len();
    let outs: Vec<CaseOut> = par_map(
        n,
        || Evaluator::new(base.clone()),
        |ev, i| {
            let (a, b, nan) = &cases[i];
            let result = eval_case(ev, a, b);
            CaseOut {
                a: a.clone(),
                b: b.clone(),
                nan: *nan,
                nontrivial: b.contains("->"),
                result,
            }
        },
    );
    rep.states = n as u64;
    rep.evaluations = n as u64;
    for o in outs {
        rep.transitions += 12;
        match &o.result {
            Err(e) => {
                if e.starts_with("PANIC") {
                    rep.violation(
                        format!("input:{} ? {}", o.a, o.b),
                        format!("comparison of {} and {} panicked: {e}", o.a, o.b),
                        json!({"a": o.a, "b": o.b}),
                    );
                } else if e.contains("Conversion error") || e.contains("runtime") {
                    // the comparison type-checks but fails at run time: no boolean at all
                    rep.violation(
                        format!("input:{} ? {}", o.a, o.b),
                        format!("comparing {} with {} fails at run time: {e}", o.a, o.b),
                        json!({"a": o.a, "b": o.b}),
                    );
                } else {
                    rep.machinery_error(format!("case {} vs {} failed to evaluate: {e}", o.a, o.b));
                }
            }
            Ok(bs) => {
                rep.validated += 1;
                rep.outcome(&format!("{bs:?}"));
                if o.nontrivial {
                    rep.nontrivial_case(&format!("{}|{}", o.a, o.b));
                }
                if let Err(why) = judge(bs, o.nan) {
                    rep.violation(
                        format!("input:{} ? {}", o.a, o.b),
                        format!("A = {}, B = {}: {why}", o.a, o.b),
                        json!({"a": o.a, "b": o.b, "nan": o.nan, "relations": RELS, "observed": bs}),
                    );
                }
                if rep.samples.len() < 5 && o.nontrivial {
                    rep.sample(json!({"A": o.a, "B": o.b, "relations": RELS, "observed": bs}));
                }
            }
        }
    }
    rep.set("unit_pairs", json!(pairs.len()));
    rep.set("units", json!(defs.units.len()));
    rep.set("magnitudes", json!(mags));
    rep.rule = "every ordered pair of same-dimension prelude units (incl. a unit with itself) x magnitude alphabet M12 (thorough: + smallest subnormal, a subnormal, the largest finite value, 2^53+1) x shapes {x·ub, (x·ua -> ub)} (+ cross magnitudes and prefixed operands in the thorough tier); 12 relations per case evaluated by the interpreter; states = cases, transitions = relation evaluations; non-trivial = cases whose right operand is the left one converted into the other unit".into();
    rep.assumptions = vec![
        "magnitudes outside the alphabet are not explored".into(),
        "laws are judged bit-exactly on the interpreter's boolean results".into(),
    ];
}

pub fn replay(case: &J) -> i32 {
    let a = case["a"].as_str().unwrap_or("");
    let b = case["b"].as_str().unwrap_or("");
    let nan = case["nan"].as_bool().unwrap_or(false);
    let mut ev = Evaluator::new(all_ctx());
    println!("{}", program(a, b));
    match eval_case(&mut ev, a, b) {
        Ok(bs) => {
            for (r, v) in RELS.iter().zip(bs.iter()) {
                println!("  {r}: {v}");
            }
            match judge(&bs, nan) {
                Ok(()) => {
                    println!("no violation on this tree");
                    0
                }
                Err(e) => {
                    println!("VIOLATION reproduced: {e}");
                    1
                }
            }
        }
        Err(e) => {
            println!("evaluation failed: {e}");
            1
        }
    }
}
