//! C05 — automatic unit simplification never changes the quantity.
//!
//! For every expression of the space: the raw value (bound to a variable, read through the hook)
//! is compared with what the user is shown for the same expression as a result, through `print`
//! and inside an interpolated string.

use crate::common::*;
use crate::props::c03::collision_leaves;
use crate::uexpr::*;
use crate::units::*;
use numbat::value::Value;
use serde_json::{Value as J, json};

pub const TOL: f64 = 1e-9;
/// texts carry 6 significant digits
pub const TEXT_TOL: f64 = 2e-5;

#[derive(Clone)]
pub struct Case {
    pub expr: String,
    pub nontrivial: bool,
    /// also check the print / interpolation text paths (costs 4 more evaluations)
    pub text_paths: bool,
    /// an explicit conversion target (then the displayed unit must be exactly this)
    pub target: Option<String>,
}

fn same(a: f64, b: f64, tol: f64) -> bool {
    if a == 0.0 || b == 0.0 {
        a == b || (a - b).abs() < 1e-300
    } else if a.is_finite() && b.is_finite() {
        close(a, b, tol)
    } else {
        a == b || (a.is_nan() && b.is_nan())
    }
}

pub struct Verdict {
    pub shown: String,
    pub simplified: bool,
    pub display_panic: Option<String>,
}

pub fn judge(ev: &mut Evaluator, defs: &UnitDefs, c: &Case) -> Result<Verdict, String> {
    let full = match &c.target {
        Some(t) => format!("({}) -> {}", c.expr, t),
        None => c.expr.clone(),
    };
    let raw = ev.raw(&full).ok_or_else(|| "machinery: expression does not evaluate".to_string())?;
    let (raw_x, raw_f) = quantity_parts(&raw).ok_or("machinery: not a quantity")?;
    let (raw_b, raw_d) = defs.value_in_base(&raw).ok_or("machinery: unknown unit")?;
    // displayed result
    let r = ev.eval(&full);
    if let Some(p) = r.panic() {
        return Ok(Verdict {
            shown: String::new(),
            simplified: false,
            display_panic: Some(format!("{} at {}", p.message, p.site())),
        });
    }
    let Some(res) = r.value().cloned() else {
        return Err(format!("evaluates inside `let` but fails as a result: {}", r.err_string().unwrap_or_default()));
    };
    let (res_x, res_f) = quantity_parts(&res).ok_or("displayed result is not a quantity")?;
    let (res_b, res_d) = defs.value_in_base(&res).ok_or("displayed result has an unknown unit")?;
    let shown = res.pretty_print().to_string();
    if res_d != raw_d {
        return Err(format!(
            "displayed as `{shown}` with dimension {}, the computed value has {}",
            dim_string(&res_d),
            dim_string(&raw_d)
        ));
    }
    if !same(res_b, raw_b, TOL) {
        return Err(format!(
            "displayed as `{shown}` = {res_b:e} in base units, the computed value {raw_x:e} {} is {raw_b:e}",
            unit_text(&raw).unwrap_or_default()
        ));
    }
    if c.target.is_some() && res_f != raw_f {
        return Err(format!(
            "explicitly converted value is displayed as `{shown}` [{}] instead of the requested unit [{}]",
            factors_string(&res_f),
            factors_string(&raw_f)
        ));
    }
    // converting the simplified result back to the unit of the unsimplified computation
    if res_f != raw_f {
        let back = convert_value(ev, &res, &raw);
        match back {
            Some(bx) => {
                if !same(bx, raw_x, TOL) {
                    return Err(format!(
                        "displayed as `{shown}`; converting that back to `{}` gives {bx:e}, the computed magnitude is {raw_x:e}",
                        unit_text(&raw).unwrap_or_default()
                    ));
                }
            }
            None => {
                return Err(format!(
                    "displayed as `{shown}`, which cannot be converted back to `{}`",
                    unit_text(&raw).unwrap_or_default()
                ));
            }
        }
    }
    let _ = res_x;
    if c.text_paths {
        // print(E) and "{E}"
        let p = ev.eval(&format!("print({full})"));
        let s = ev.eval(&format!("\"{{{full}}}\""));
        let printed = p.printed.first().cloned();
        let interpolated = match s.value() {
            Some(Value::String(x)) => Some(x.to_string()),
            _ => None,
        };
        for (what, text) in [("print", printed), ("string interpolation", interpolated)] {
            let Some(text) = text else {
                if p.panic().is_some() || s.panic().is_some() {
                    continue;
                }
                return Err(format!("{what} of the expression fails"));
            };
            // read the text back as numbat input
            let Some(v) = ev.raw(&format!("({text})")) else {
                return Err(format!("{what} shows `{text}`, which does not read back"));
            };
            let Some((tb, td)) = defs.value_in_base(&v) else {
                return Err(format!("{what} shows `{text}`, which reads back with an unknown unit"));
            };
            if td != raw_d {
                return Err(format!("{what} shows `{text}` with dimension {}, the computed value has {}", dim_string(&td), dim_string(&raw_d)));
            }
            if !same(tb, raw_b, TEXT_TOL) {
                return Err(format!("{what} shows `{text}` = {tb:e} in base units, the computed value is {raw_b:e}"));
            }
            if c.target.is_some() {
                let (_, tf) = quantity_parts(&v).unwrap();
                if tf != raw_f {
                    return Err(format!("{what} of an explicitly converted value shows `{text}` instead of the requested unit `{}`", unit_text(&raw).unwrap_or_default()));
                }
            }
        }
    }
    Ok(Verdict {
        shown,
        simplified: res_f != raw_f,
        display_panic: None,
    })
}

/// `value -> unit(of other)` computed by the interpreter from the *texts* of both (full precision)
fn convert_value(ev: &mut Evaluator, v: &Value, unit_of: &Value) -> Option<f64> {
    let (x, _) = quantity_parts(v)?;
    let vt = format!("({:e}) * ({})", x, unit_source(v)?);
    let ut = unit_source(unit_of)?;
    let r = ev.raw(&format!("({vt}) -> ({ut})"))?;
    quantity_parts(&r).map(|p| p.0)
}

/// numbat source text for the unit of a quantity, built from its factor list
fn unit_source(v: &Value) -> Option<String> {
    let (_, fs) = quantity_parts(v)?;
    if fs.is_empty() {
        return Some("1".into());
    }
    let mut parts = vec![];
    for (name, pfx, a, b) in fs {
        let p = Pfx::parse_debug(&pfx);
        let long = crate::props::c13::ref_prefixes().into_iter().find(|(_, _, q)| *q == p).map(|(l, _, _)| l);
        let base = match (p, long) {
            (Pfx::Metric(0), _) => name.clone(),
            (_, Some(l)) => format!("{l}{name}"),
            _ => return None,
        };
        parts.push(if b == 1 { format!("{base}^({a})") } else { format!("{base}^({a}/{b})") });
    }
    Some(parts.join(" * "))
}

pub fn check(rep: &mut Report) {
    let base = all_ctx();
    let defs = match UnitDefs::build(&base) {
        Ok(d) => d,
        Err(e) => {
            rep.machinery_error(e);
            return;
        }
    };
    let mut cases: Vec<Case> = vec![];
    let names: Vec<&String> = defs.units.keys().collect();
    // every product and quotient of two units
    for (i, a) in names.iter().enumerate() {
        for (j, b) in names.iter().enumerate() {
            let text_paths = rep.tier == Tier::Thorough || (i * 31 + j) % 16 == 0;
            cases.push(Case { expr: format!("(2.5 * {a}) * (40.5 * {b})"), nontrivial: true, text_paths, target: None });
            cases.push(Case { expr: format!("(2.5 * {a}) / (40.5 * {b})"), nontrivial: true, text_paths, target: None });
        }
    }
    let n_pairs = cases.len();
    // prefixed named units: every pair over (named SI units) x (prefix alphabet), products and quotients
    let si_named = ["metre", "second", "gram", "newton", "joule", "watt", "pascal", "volt", "ampere", "coulomb", "ohm", "farad", "hertz", "litre", "bar", "electronvolt", "byte", "bit", "tesla", "weber"];
    let pfx = ["", "nano", "milli", "kilo", "giga"];
    let mut atoms: Vec<String> = vec![];
    for n in si_named {
        let Some(u) = defs.units.get(n) else { continue };
        for p in pfx {
            if p.is_empty() || u.metric {
                atoms.push(format!("{p}{n}"));
            }
        }
    }
    for (i, a) in atoms.iter().enumerate() {
        for (j, b) in atoms.iter().enumerate() {
            let text_paths = rep.tier == Tier::Thorough || (i * 17 + j) % 8 == 0;
            cases.push(Case { expr: format!("(2 * {a}) * (3 * {b})"), nontrivial: true, text_paths, target: None });
            cases.push(Case { expr: format!("(2 * {a}) / (3 * {b})"), nontrivial: true, text_paths, target: None });
        }
    }
    let n_prefixed = cases.len() - n_pairs;
    // <= 3-factor terms over the collision alphabet with powers
    let leaves = collision_leaves(&defs, rep.tier == Tier::Thorough);
    let mut trees: Vec<UExpr> = vec![];
    let plain: Vec<&UExpr> = leaves.iter().collect();
    for a in &plain {
        for (n, d) in [(2, 1), (-1, 1), (1, 2), (3, 1)] {
            trees.push(UExpr::Pow(Box::new((*a).clone()), n, d));
        }
        for b in &plain {
            for op in ['*', '/'] {
                let ab = UExpr::Bin(op, Box::new((*a).clone()), Box::new((*b).clone()));
                for (n, d) in [(2, 1), (1, 2)] {
                    trees.push(UExpr::Pow(Box::new(ab.clone()), n, d));
                }
                let cs: Vec<&&UExpr> = if rep.tier == Tier::Thorough { plain.iter().collect() } else { plain.iter().step_by(3).collect() };
                for c in cs {
                    for op2 in ['*', '/'] {
                        trees.push(UExpr::Bin(op2, Box::new(ab.clone()), Box::new((**c).clone())));
                    }
                }
            }
        }
    }
    for (k, t) in trees.iter().enumerate() {
        if let Some(v) = t.eval(&defs) {
            if v.v.is_finite() {
                cases.push(Case { expr: t.render(), nontrivial: true, text_paths: k % 8 == 0 || rep.tier == Tier::Thorough, target: None });
            }
        }
    }
    let n_trees = cases.len() - n_pairs - n_prefixed;
    // explicit conversions must stay untouched on every display path
    for (a, b) in defs.same_dim_pairs(false).iter().step_by(rep.tier.pick(7, 1)) {
        cases.push(Case { expr: format!("(40.5 * {a})"), nontrivial: true, text_paths: true, target: Some(b.clone()) });
    }
    for t in ["newton * metre", "joule / second", "kilometre / hour", "pascal * metre^2", "watt * hour", "volt * ampere", "kilogram * metre / second^2", "percent * metre", "metre / kilometre"] {
        for src in ["(3 * joule)", "(3 * watt)", "(3 * metre / second)", "(3 * newton)", "(3 * watt * hour)", "(3 * metre)", "3"] {
            let e = format!("let vfq_probe = {src} -> {t}");
            let mut c = base.clone();
            if run(&mut c, &e).is_ok() {
                cases.push(Case { expr: src.to_string(), nontrivial: true, text_paths: true, target: Some(format!("({t})")) });
            }
        }
    }
    // explicit conversion into every product / quotient / square of two units of a derived-SI
    // alphabet (many of them are, by definition, a power of one base unit or another named unit:
    // N/Pa = m², J/W = s, W/V = A, J/N = m, V·A = W …), from the same quantity written in base
    // units and from the target itself
    {
        let alpha = ["metre", "second", "gram", "ampere", "newton", "joule", "watt", "pascal", "volt", "coulomb", "hertz", "ohm", "kelvin", "litre", "hour"];
        let alpha: Vec<&str> = alpha.iter().copied().filter(|u| defs.units.contains_key(*u)).collect();
        if alpha.len() < 12 {
            rep.machinery_error(format!("derived-SI alphabet: only {} of the units exist", alpha.len()));
        }
        let mut targets: Vec<(String, Dim)> = vec![];
        for a in &alpha {
            let da = defs.units[*a].dim.clone();
            targets.push((format!("{a}^2"), dim_pow(&da, 2, 1)));
            for b in &alpha {
                if a == b {
                    continue;
                }
                let db = defs.units[*b].dim.clone();
                targets.push((format!("{a} * {b}"), dim_mul(&da, &db)));
                targets.push((format!("{a} / {b}"), dim_mul(&da, &dim_inv(&db))));
                if rep.tier == Tier::Thorough {
                    targets.push((format!("{a} / {b}^2"), dim_mul(&da, &dim_pow(&db, -2, 1))));
                    targets.push((format!("{a}^2 / {b}"), dim_mul(&dim_pow(&da, 2, 1), &dim_inv(&db))));
                }
            }
        }
        for (t, d) in targets {
            let base_form: Vec<String> = d.iter().filter(|(_, (n, _))| *n != 0).map(|(k, (n, m))| if *m == 1 { format!("{k}^({n})") } else { format!("{k}^({n}/{m})") }).collect();
            let base_src = if base_form.is_empty() { "3".to_string() } else { format!("(3 * {})", base_form.join(" * ")) };
            cases.push(Case { expr: base_src, nontrivial: true, text_paths: true, target: Some(format!("({t})")) });
            cases.push(Case { expr: format!("(40.5 * ({t}))"), nontrivial: true, text_paths: false, target: Some(format!("({t})")) });
        }
    }
    let n_conv = cases.len() - n_pairs - n_prefixed - n_trees;
    let n = cases.len();
    let outs: Vec<Result<Verdict, String>> = par_map(n, || Evaluator::new(base.clone()), |ev, i| judge(ev, &defs, &cases[i]));
    rep.states = n as u64;
    let mut simplified = 0u64;
    let mut panics: std::collections::BTreeMap<String, (u64, String)> = Default::default();
    for (i, o) in outs.into_iter().enumerate() {
        let evals = if cases[i].text_paths { 6 } else { 2 };
        rep.transitions += evals;
        rep.evaluations += evals;
        match o {
            Ok(v) => {
                if let Some(p) = v.display_panic {
                    let site = p.split(" at ").last().unwrap_or("").to_string();
                    let e = panics.entry(site).or_insert((0, cases[i].expr.clone()));
                    e.0 += 1;
                    continue;
                }
                rep.validated += 1;
                if v.simplified {
                    simplified += 1;
                    rep.nontrivial_case(&cases[i].expr);
                }
                if i % 211 == 3 {
                    rep.outcome(&v.shown);
                }
                if rep.samples.len() < 8 && v.simplified && i % 9973 == 1 {
                    rep.sample(json!({"expr": cases[i].expr, "displayed": v.shown}));
                }
            }
            Err(e) => {
                if e.starts_with("machinery") {
                    rep.machinery_error(format!("{}: {e}", cases[i].expr));
                } else {
                    let full = match &cases[i].target {
                        Some(t) => format!("({}) -> {}", cases[i].expr, t),
                        None => cases[i].expr.clone(),
                    };
                    rep.violation(format!("input:{full}"), format!("`{full}`: {e}"), json!({"expr": cases[i].expr, "target": cases[i].target, "text_paths": cases[i].text_paths}));
                }
            }
        }
    }
    // displaying the value panicked: no displayed value to compare; reported by call site
    for (site, (count, example)) in &panics {
        rep.violation(
            format!("callsite:{site}"),
            format!("displaying the result panics at {site} for {count} expressions of the space, e.g. `{example}`"),
            json!({"expr": example, "target": J::Null, "text_paths": false, "cases": count}),
        );
    }
    rep.set("unit_pair_cases", json!(n_pairs));
    rep.set("prefixed_pair_cases", json!(n_prefixed));
    rep.set("tree_cases", json!(n_trees));
    rep.set("explicit_conversion_cases", json!(n_conv));
    rep.set("results_changed_by_simplification", json!(simplified));
    rep.rule = "every product and quotient of two standard-library units (all units^2), every product/quotient of two prefixed named SI units over the prefix alphabet {none,nano,milli,kilo,giga}, every <=3-factor term with powers over the collision alphabet, and explicit conversions (every same-dimension unit pair, and into every product/quotient/square of two units of a 15-unit derived-SI alphabet from the base-unit form of the same quantity); for each the raw value (hook) is compared with the displayed result (dimension, base-unit magnitude, conversion back to the raw unit) and, on a fixed subset, with the texts produced by print and string interpolation read back as input; non-trivial = cases whose displayed unit differs from the raw unit (simplification actually happened)".into();
    rep.assumptions = vec![
        "reference = UnitDefs; tolerance 1e-9 (values), 2e-5 (6-digit texts)".into(),
        "magnitudes fixed (2.5, 40.5, 2, 3)".into(),
    ];
}

pub fn replay(case: &J) -> i32 {
    let base = all_ctx();
    let defs = UnitDefs::build(&base).unwrap();
    let mut ev = Evaluator::new(base);
    set_quiet_panics(true);
    let c = Case {
        expr: case["expr"].as_str().unwrap_or("").into(),
        nontrivial: true,
        text_paths: case["text_paths"].as_bool().unwrap_or(true),
        target: case["target"].as_str().map(|s| s.to_string()),
    };
    println!("{} {:?}", c.expr, c.target);
    match judge(&mut ev, &defs, &c) {
        Ok(v) => {
            if let Some(p) = v.display_panic {
                println!("VIOLATION reproduced: display panics: {p}");
                return 1;
            }
            println!("shown: {}\nno violation on this tree", v.shown);
            0
        }
        Err(e) => {
            println!("VIOLATION reproduced: {e}");
            1
        }
    }
}
