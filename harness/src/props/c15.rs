//! C15 — the echoed (pretty-printed) form of an input means the same as the input.
//!
//! Bounded-exhaustive enumeration of statements (fully parenthesised operator nestings, the C02 and
//! C09 program spaces, definitions with decorators / annotations / where clauses, strings,
//! temperature sugar, date arithmetic, number spellings).  For every accepted statement S, in two
//! clones of the same pre-state: P = echo(S) must be accepted, have the same type, the same value
//! (bit-exact) and the same printed output, echo(P) == P, and every probe (uses of the names S
//! defines) must behave identically after S and after P.

use crate::common::*;
use crate::props::c02::build_cases;
use crate::props::c09;
use crate::props::dimprog::*;
use numbat::Context;
use serde_json::{Value as J, json};

pub struct Case {
    pub family: &'static str,
    /// 0 = dimension scaffold session, 1 = C09 scaffold session
    pub base: u8,
    pub code: String,
    pub probes: Vec<String>,
    /// C09 expression (its reference evaluation decides whether the input is run at all)
    pub expr: Option<c09::E>,
}

pub const EXTRA: &str = "let x2 = 5\nlet bt = true\nlet sv = \"str\"\nstruct Pt2 { px: Scalar, py: Scalar }\nlet pt = Pt2 { px: 1, py: 2 }\nlet pu = Pt2 { px: 3, py: 4 }\nfn idf(x) = x\nlet fv = sqrt\nlet dt1 = datetime(\"2020-02-03T04:05:06Z\")\nlet dt2 = datetime(\"2021-03-04T05:06:07Z\")\nlet xs2 = [1, 2, 3]";

pub fn base_a() -> Context {
    let mut ctx = scaffold_ctx();
    let r = run(&mut ctx, EXTRA);
    assert!(r.is_ok(), "C15 scaffold: {:?}", r.err_string());
    ctx
}

fn c(family: &'static str, code: impl Into<String>) -> Case {
    Case { family, base: 0, code: code.into(), probes: vec![], expr: None }
}
fn cp(family: &'static str, code: impl Into<String>, probes: &[String]) -> Case {
    Case { family, base: 0, code: code.into(), probes: probes.to_vec(), expr: None }
}

// ------------------------------------------------------------------------------------------------
// generators

fn paren(s: &str, atom: bool) -> String {
    if atom { s.to_string() } else { format!("({s})") }
}

/// fully parenthesised operator nestings: the source fixes the tree, the printer decides which
/// parentheses to keep
fn operator_nestings(thorough: bool) -> Vec<Case> {
    let atoms: Vec<&str> = if thorough { vec!["2", "0.1", "x2", "m", "s", "3"] } else { vec!["2", "0.1", "x2", "m"] };
    let bin = ["+", "-", "*", "/", "^", "per", "->", " "];
    #[derive(Clone)]
    struct T {
        s: String,
        atom: bool,
    }
    let t0: Vec<T> = atoms.iter().map(|a| T { s: a.to_string(), atom: true }).collect();
    let combine = |a: &T, op: &str, b: &T| -> Option<T> {
        if op == " " {
            // juxtaposition: a parenthesised right operand would be a call
            if !b.atom || b.s.chars().next().unwrap().is_ascii_digit() {
                return None;
            }
            return Some(T { s: format!("{} {}", paren(&a.s, a.atom), b.s), atom: false });
        }
        Some(T { s: format!("{} {op} {}", paren(&a.s, a.atom), paren(&b.s, b.atom)), atom: false })
    };
    let unary = |a: &T| -> Vec<T> {
        vec![
            T { s: format!("-{}", paren(&a.s, a.atom)), atom: false },
            T { s: format!("{}!", paren(&a.s, a.atom)), atom: false },
            T { s: format!("sq({})", a.s), atom: true },
            T { s: format!("{}²", paren(&a.s, a.atom)), atom: false },
        ]
    };
    let mut t1 = t0.clone();
    for a in &t0 {
        t1.extend(unary(a));
        for b in &t0 {
            for op in bin {
                t1.extend(combine(a, op, b));
            }
        }
    }
    let mut out: Vec<Case> = t1.iter().map(|t| c("operator nesting", t.s.clone())).collect();
    let mut t2: Vec<T> = vec![];
    for a in &t1 {
        if !a.atom || a.s.starts_with("sq(") {
            t2.extend(unary(a));
        }
        for b in &t1 {
            if a.atom && b.atom && !a.s.starts_with("sq(") && !b.s.starts_with("sq(") {
                continue; // already in t1
            }
            for op in bin {
                t2.extend(combine(a, op, b));
            }
        }
    }
    out.extend(t2.iter().map(|t| c("operator nesting", t.s.clone())));
    if thorough {
        // depth-3 chains: left- and right-leaning, every operator triple
        let ops = ["+", "-", "*", "/", "^", "->"];
        let at = ["2", "0.1", "m"];
        for o1 in ops {
            for o2 in ops {
                for o3 in ops {
                    for a in at {
                        for b in at {
                            for c1 in at {
                                for d in at {
                                    out.push(c("operator chain", format!("(({a} {o1} {b}) {o2} {c1}) {o3} {d}")));
                                    out.push(c("operator chain", format!("{a} {o1} ({b} {o2} ({c1} {o3} {d}))")));
                                    out.push(c("operator chain", format!("({a} {o1} {b}) {o2} ({c1} {o3} {d})")));
                                }
                            }
                        }
                    }
                }
            }
        }
    }
    out
}

fn boolean_and_conditional(thorough: bool) -> Vec<Case> {
    let mut out = vec![];
    let b0 = ["true", "false", "bt", "2 < 3", "x2 == 5"];
    let mut b1: Vec<String> = b0.iter().map(|s| s.to_string()).collect();
    for a in b0 {
        b1.push(format!("!({a})"));
        for b in b0 {
            for op in ["&&", "||", "==", "!="] {
                b1.push(format!("({a}) {op} ({b})"));
            }
        }
    }
    for a in &b1 {
        out.push(c("boolean nesting", a.clone()));
    }
    let lim = if thorough { b1.len() } else { 40 };
    for a in b1.iter().take(lim) {
        out.push(c("boolean nesting", format!("!({a})")));
        for b in b1.iter().take(lim) {
            for op in ["&&", "||", "=="] {
                out.push(c("boolean nesting", format!("({a}) {op} ({b})")));
            }
        }
    }
    // comparisons of arithmetic
    let n0 = ["2", "x2", "2 + 3", "2 * x2", "-2", "2^2", "3!", "2 m / (1 m)"];
    for a in n0 {
        for b in n0 {
            for op in ["<", ">", "<=", ">=", "==", "!="] {
                out.push(c("comparison", format!("({a}) {op} ({b})")));
                out.push(c("comparison", format!("(({a}) {op} ({b})) && bt")));
                out.push(c("comparison", format!("!(({a}) {op} ({b}))")));
            }
        }
    }
    // conditionals in every operand position
    let conds = ["bt", "2 < 3", "!bt", "bt && false"];
    let vals = ["2", "x2", "2 + 3", "-2", "0.1"];
    let mut ifs: Vec<String> = vec![];
    for cnd in conds {
        for a in vals {
            for b in vals {
                ifs.push(format!("if {cnd} then {a} else {b}"));
            }
        }
    }
    for i in &ifs {
        out.push(c("conditional", i.clone()));
    }
    let some_ifs: Vec<&String> = ifs.iter().step_by(if thorough { 1 } else { 7 }).collect();
    for i in &some_ifs {
        for ctx in [
            "({I}) + 1", "1 + ({I})", "({I}) - 1", "1 - ({I})", "({I}) * 3", "3 * ({I})", "({I}) / 3", "3 / ({I})", "({I})^2", "2^({I})", "-({I})", "({I})!", "sq({I})", "[{I}]", "[{I}, 1]",
            "({I}) m", "({I}) m -> cm", "({I}) -> percent", "({I}) per 2", "2 per ({I})", "({I}) < 3", "3 < ({I})", "({I}) |> sq", "\"v={{I}}\"", "Pt2 { px: {I}, py: 1 }", "Pt2 { px: {I}, py: 1 }.px",
            "if ({I}) < 3 then 1 else 2", "if bt then ({I}) else 7", "if bt then 7 else ({I})", "if bt then 7 else ({I}) + 1", "(if bt then 7 else ({I})) + 1", "idf({I})", "max({I}, 1)",
        ] {
            out.push(c("conditional in operand position", ctx.replace("{I}", i)));
        }
    }
    // conditionals yielding other kinds of values
    for cnd in conds {
        out.push(c("conditional receiver", format!("(if {cnd} then pt else pu).px")));
        out.push(c("conditional receiver", format!("(if {cnd} then pt else pu).py + 1")));
        out.push(c("conditional receiver", format!("(if {cnd} then sqrt else sqr)(4)")));
        out.push(c("conditional receiver", format!("(if {cnd} then fv else sqr)(4) + 1")));
        out.push(c("conditional receiver", format!("(if {cnd} then 2 m else 3 m) -> cm")));
        out.push(c("conditional receiver", format!("(if {cnd} then 2 m else 3 cm) -> mm")));
        out.push(c("conditional receiver", format!("2 m -> (if {cnd} then cm else mm)")));
        out.push(c("conditional receiver", format!("(if {cnd} then xs2 else [4]) |> head")));
        out.push(c("conditional receiver", format!("head(if {cnd} then xs2 else [4])")));
        out.push(c("conditional receiver", format!("(if {cnd} then \"a\" else \"b\") |> str_length")));
        out.push(c("conditional receiver", format!("(if {cnd} then dt1 else dt2) + 3 days")));
        out.push(c("conditional receiver", format!("(if {cnd} then dt1 else dt2) - dt1")));
    }
    // field access / calls on other receivers
    for r in ["pt", "Pt2 { px: 1, py: 2 }", "idf(pt)", "(pt)", "head([pt, pu])", "[pt, pu] |> head"] {
        out.push(c("field access", format!("{r}.px")));
        out.push(c("field access", format!("({r}).py * 2")));
        out.push(c("field access", format!("-{r}.px")));
        out.push(c("field access", format!("({r}.px)!")));
        out.push(c("field access", format!("({r}).px^2")));
        out.push(c("field access", format!("2^({r}).py")));
    }
    for f in ["fv", "sqrt", "idf(sqrt)", "(fv)", "head([sqrt, sqr])"] {
        out.push(c("callable call", format!("{f}(4)")));
        out.push(c("callable call", format!("({f})(4) + 1")));
        out.push(c("callable call", format!("-{f}(4)")));
        out.push(c("callable call", format!("({f})(4)^2")));
        out.push(c("callable call", format!("4 |> {f}")));
        out.push(c("callable call", format!("(4 + 5) |> {f}")));
        out.push(c("callable call", format!("4 + 5 |> {f}")));
        out.push(c("callable call", format!("4 |> {f} |> {f}")));
    }
    out
}

/// dimension / type expressions (fully parenthesised source)
fn type_exprs(names: &[&str], depth2: bool) -> Vec<(String, String)> {
    // (type expression, value expression of that dimension) — value built from unit names
    let unit_of = |n: &str| match n {
        "Length" => "m",
        "Time" => "s",
        "Mass" => "kg",
        "Scalar" => "1",
        "Velocity" => "(m/s)",
        "1" => "1",
        _ => "?",
    }
    .to_string();
    let t0: Vec<(String, String, bool)> = names.iter().map(|n| (n.to_string(), unit_of(n), true)).collect();
    let exps = ["2", "3", "-1", "(1/3)", "(-2/3)", "(2/3)", "12", "15", "0"];
    let mk = |v: &Vec<(String, String, bool)>| {
        let mut out = vec![];
        for (a, av, aatom) in v {
            for e in exps {
                out.push((format!("{}^{e}", paren(a, *aatom)), format!("({av})^{e}"), false));
            }
            for (b, bv, batom) in v {
                out.push((format!("{} * {}", paren(a, *aatom), paren(b, *batom)), format!("({av}) * ({bv})"), false));
                out.push((format!("{} / {}", paren(a, *aatom), paren(b, *batom)), format!("({av}) / ({bv})"), false));
            }
        }
        out
    };
    let t1 = mk(&t0);
    let mut all: Vec<(String, String, bool)> = t0.clone();
    all.extend(t1.iter().cloned());
    if depth2 {
        let mut mixed = vec![];
        for (a, av, aatom) in &all {
            for (b, bv, batom) in &all {
                if *aatom && *batom {
                    continue;
                }
                mixed.push((format!("{} * {}", paren(a, *aatom), paren(b, *batom)), format!("({av}) * ({bv})"), false));
                mixed.push((format!("{} / {}", paren(a, *aatom), paren(b, *batom)), format!("({av}) / ({bv})"), false));
            }
            if !*aatom {
                for e in ["2", "-1", "(1/3)", "(-2/3)"] {
                    mixed.push((format!("({a})^{e}"), format!("({av})^{e}"), false));
                }
            }
        }
        all.extend(mixed);
    }
    all.into_iter().map(|(a, b, _)| (a, b)).collect()
}

fn annotations_and_dimensions(thorough: bool) -> Vec<Case> {
    let mut out = vec![];
    let tes = type_exprs(&["Length", "Time", "Scalar", "1"], thorough);
    for (te, ve) in &tes {
        if ve.contains('?') {
            continue;
        }
        out.push(cp("annotated let", format!("let aq: {te} = 3 * ({ve})"), &["aq".into(), "aq * 2".into()]));
        out.push(cp("annotated function", format!("fn fnt_a(x: {te}) -> {te} = x"), &[format!("fnt_a(3 * ({ve}))"), "fnt_a(2)".into(), "fnt_a(2 m)".into()]));
        out.push(cp("dimension definition", format!("dimension Dq = {te}"), &[format!("let dq: Dq = 3 * ({ve})\ndq"), format!("fn fnd_a(x: Dq) -> {te} = x\nfd(3 * ({ve}))")]));
        out.push(cp("derived unit with annotation", format!("unit uq: {te} = 3 * ({ve})"), &["2 uq".into(), format!("2 uq -> ({ve})")]));
        out.push(cp("base unit with annotation", format!("unit ub: {te}"), &["2 ub".into(), format!("2 ub + 3 * ({ve})")]));
        out.push(cp("struct definition", format!("struct Sq {{ fa: {te}, fb: Bool }}"), &[format!("Sq {{ fa: 3 * ({ve}), fb: true }}"), format!("Sq {{ fa: 3 * ({ve}), fb: true }}.fa")]));
        out.push(cp("list annotation", format!("let lq: List<{te}> = [3 * ({ve})]"), &["lq".into(), "head(lq)".into()]));
        out.push(cp("function type annotation", format!("fn fnq_a(g: Fn[({te}) -> {te}], x: {te}) -> {te} = g(x)"), &[format!("fnq_a(idf, 3 * ({ve}))")]));
    }
    // generic annotations
    let gtes = type_exprs(&["A", "B", "Length"], false);
    for (te, _) in &gtes {
        out.push(cp("generic annotated function", format!("fn fng_a<A: Dim, B: Dim>(x: A, y: B, z: {te}) -> {te} = z"), &[]));
        out.push(cp("generic annotated function", format!("fn fng_a<A: Dim, B: Dim>(x: {te}) -> {te} * A = x * x^0"), &[]));
        out.push(cp("generic struct", format!("struct Gq<A: Dim, B: Dim> {{ ga: A, gb: B, gc: {te} }}"), &[]));
    }
    for (decl, probes) in [
        ("fn fng_a<A: Dim>(x: A) -> A^2 = x * x", vec!["fng_a(2 m)", "fng_a(3)"]),
        ("fn fng_a<A: Dim>(x: A^(1/3)) -> A = x^3", vec!["fng_a(2 m)", "fng_a(3)"]),
        ("fn fng_a<A: Dim, B: Dim>(x: A^(1/3) * B^(2/5), y: B^(1/5)) -> A = x^3 / y^6", vec!["fng_a(2 m, 3 s)", "fng_a(3, 1)"]),
        ("fn fng_a<A: Dim>(x: A, y: A) -> Bool = x < y", vec!["fng_a(2 m, 3 cm)"]),
        ("fn fng_a<A>(x: A, y: A) -> Bool = x == y", vec!["fng_a(2 m, 3 cm)", "fng_a(\"a\", \"a\")", "fng_a(true, false)"]),
        ("fn fng_a<A>(x: A) -> List<A> = [x, x]", vec!["fng_a(2 m)", "fng_a(\"a\")", "fng_a([1])"]),
        ("fn fng_a<A, B>(f: Fn[(A) -> B], x: A) -> B = f(x)", vec!["fng_a(sqrt, 4 m^2)", "fng_a(str_length, \"abc\")"]),
        ("fn fng_a<A: Dim>(xs: List<A>) -> A = head(xs) + head(tail(xs))", vec!["fng_a([1 m, 2 cm])"]),
        ("fn fng_a() -> Scalar = 2", vec!["fng_a()", "fng_a() + 1"]),
        ("fn fng_a() = 2 m", vec!["fng_a()", "fng_a() + 1 cm"]),
        ("fn fng_a(x: Scalar) -> String = \"{x}\"", vec!["fng_a(2)"]),
        ("fn fng_a(d: DateTime) -> DateTime = d + 1 day", vec!["fng_a(dt1)"]),
        ("fn fng_a(p: Pt2) -> Scalar = p.px + p.py", vec!["fng_a(pt)"]),
        ("fn fng_a(p: Pair) -> Velocity = p.p1 / p.p2", vec!["fng_a(pair1)"]),
        ("struct Gq<D: Dim> { gx: D, gy: D }", vec!["Gq { gx: 1 m, gy: 2 cm }", "Gq { gx: 1 m, gy: 2 cm }.gy", "Gq { gx: 1, gy: 2 }.gx", "Gq { gx: 1 m, gy: 2 s }"]),
        ("struct Gq<D: Dim, E: Dim> { gx: D, gy: D / E }", vec!["Gq { gx: 1 m, gy: 2 m / s }.gy", "Gq { gx: 1 m, gy: 2 s }"]),
        ("struct Gq<T> { gx: T, gy: List<T> }", vec!["Gq { gx: 1 m, gy: [2 cm] }.gy", "Gq { gx: \"a\", gy: [\"b\"] }.gy", "Gq { gx: 1, gy: [true] }"]),
        ("struct Gq { }", vec!["Gq { }"]),
        ("struct Gq {}", vec!["Gq {}"]),
        ("struct Gq { ga: Fn[(Length) -> Time], gb: List<List<Scalar>>, gc: String, gd: Bool, ge: DateTime, gf: Pt2 }", vec![]),
        ("dimension Dq", vec!["unit uq: Dq\n2 uq", "unit uq: Dq\n2 uq + 1"]),
        ("dimension Dq = Length * Time = Time * Length", vec!["let dq: Dq = 2 m s\ndq"]),
        ("dimension Dq = Velocity * Time = Length", vec!["let dq: Dq = 2 m\ndq"]),
        ("dimension Dq = Length^12 / Time^(1/3)", vec!["let dq: Dq = 2 m^12 / s^(1/3)\ndq"]),
        ("dimension Dq = 1 / Time", vec!["let dq: Dq = 2 Hz\ndq"]),
        ("dimension Dq = 1", vec!["let dq: Dq = 2\ndq"]),
    ] {
        out.push(cp("declaration forms", decl, &probes.iter().map(|s| s.to_string()).collect::<Vec<_>>()));
    }
    out
}

fn inferred_functions(thorough: bool) -> Vec<Case> {
    let mut out = vec![];
    // exponent denominators up to 15 in inferred signatures
    let exps = ["2", "3", "(-1)", "(1/2)", "(1/3)", "(1/5)", "(2/3)", "(3/5)", "(1/15)", "(-4/3)", "10", "12"];
    for a in exps {
        out.push(cp("inferred signature", format!("fn fni_a(x) = x^{a}"), &["fni_a(2 m)".into(), "fni_a(3)".into(), "fni_a(2 m^15)".into()]));
        for b in exps {
            out.push(cp("inferred signature", format!("fn fni_a(x) = x^{a} * x^{b}"), &["fni_a(2 m)".into(), "fni_a(3)".into()]));
            out.push(cp("inferred signature", format!("fn fni_a(x, y) = x^{a} * y^{b}"), &["fni_a(2 m, 3 s)".into(), "fni_a(3, 2)".into()]));
            out.push(cp("inferred signature", format!("fn fni_a(x, y) = x^{a} / y^{b} + x^{a} / y^{b}"), &["fni_a(2 m, 3 s)".into()]));
            if thorough {
                for c2 in ["(1/2)", "(1/3)", "(-1/7)"] {
                    out.push(cp("inferred signature", format!("fn fni_a(x, y, z) = x^{a} * y^{b} * z^{c2}"), &["fni_a(2 m, 3 s, 4 kg)".into()]));
                    out.push(cp("inferred signature", format!("fn fni_a(x, y) = (x^{a} * y^{b})^{c2}"), &["fni_a(2 m, 3 s)".into()]));
                }
            }
        }
    }
    // the boundary between superscript and `^n` spelling of an inferred exponent, both signs
    for e in -12i32..=12 {
        out.push(cp("inferred exponent boundary", format!("let tq = (2 s)^({e})"), &["tq".into(), "tq * 2".into()]));
        out.push(cp("inferred exponent boundary", format!("fn fni_a(x) = x^({e})"), &["fni_a(2 m)".into(), "fni_a(3)".into()]));
        out.push(cp("inferred exponent boundary", format!("fn fni_a(x) = 1 / x^({e})"), &["fni_a(2 m)".into(), "fni_a(3)".into()]));
        out.push(cp("inferred exponent boundary", format!("fn fni_a(x, y) = x^({e}) / y^({e})"), &["fni_a(2 m, 3 s)".into()]));
        out.push(cp("inferred exponent boundary", format!("unit uq = (3 m)^({e})"), &["2 uq".into()]));
        out.push(cp("inferred exponent boundary", format!("struct Sq {{ fa: Length^({e}) }}\nSq {{ fa: (2 m)^({e}) }}"), &[]));
        out.push(cp("inferred exponent boundary", format!("[(2 m)^({e})]"), &[]));
    }
    // every prefix, long and short spelling, on three units (the printer's prefix names must be the
    // reader's)
    for (long, shorts, kind, _) in numbat::verif::prefix_table() {
        for (unit_long, unit_short) in [("metre", "m"), ("gram", "g"), ("bit", "bit"), ("byte", "B")] {
            if kind == 'B' && unit_long != "bit" && unit_long != "byte" {
                continue;
            }
            out.push(cp("prefixed unit", format!("3 {long}{unit_long}"), &[]));
            out.push(cp("prefixed unit", format!("let pq = 7 {long}{unit_long} / (2 {long}{unit_long})\npq"), &[]));
            for sh in &shorts {
                out.push(cp("prefixed unit", format!("3 {sh}{unit_short}"), &[]));
                out.push(cp("prefixed unit", format!("unit uq = 2 {sh}{unit_short}"), &["3 uq".into()]));
            }
        }
    }
    // generic signatures that mix bounded and unbounded type parameters, in both orders, with each
    // parameter annotated by a declared type parameter or left to inference, with and without a
    // where-clause
    {
        let lists: [(&str, &[&str]); 6] = [("<T>", &["T"]), ("<D: Dim>", &["D"]), ("<T, D: Dim>", &["T", "D"]), ("<D: Dim, T>", &["D", "T"]), ("<T, U>", &["T", "U"]), ("<D: Dim, E: Dim>", &["D", "E"])];
        let bodies = ["a", "b", "[a]", "\"{a}\"", "b * 2", "if a == a then b else b"];
        for (list, names) in lists {
            let mut anns: Vec<String> = vec![String::new()];
            anns.extend(names.iter().map(|n| format!(": {n}")));
            for aa in &anns {
                for ab in &anns {
                    for body in bodies {
                        let probes: Vec<String> = ["fnm_a(2 m, 3 s)", "fnm_a(\"s\", 2 m)", "fnm_a(true, 3)", "fnm_a(2, \"t\")"].iter().map(|p| p.to_string()).collect();
                        out.push(cp("mixed generic signature", format!("fn fnm_a{list}(a{aa}, b{ab}) = {body}"), &probes));
                        out.push(cp("mixed generic signature", format!("fn fnm_a{list}(a{aa}, b{ab}) = lb\n  where lb = {body}"), &probes));
                    }
                }
            }
        }
    }
    // bodies of other kinds
    for (decl, probes) in [
        ("fn fni_a(x) = x", vec!["fni_a(2 m)", "fni_a(\"a\")", "fni_a([1])", "fni_a(true)"]),
        ("fn fni_a(x) = [x]", vec!["fni_a(2 m)", "fni_a(\"a\")"]),
        ("fn fni_a(x, y) = if x then y else y", vec!["fni_a(true, 2 m)", "fni_a(false, \"a\")"]),
        ("fn fni_a(x) = \"{x}\"", vec!["fni_a(2 m)", "fni_a(true)"]),
        ("fn fni_a(x) = head(x)", vec!["fni_a([2 m])"]),
        ("fn fni_a(x) = x.px", vec!["fni_a(pt)"]),
        ("fn fni_a(f, x) = f(x)", vec!["fni_a(sqrt, 4)", "fni_a(idf, true)"]),
        ("fn fni_a(f, x) = f(f(x))", vec!["fni_a(sqr, 4)", "fni_a(idf, true)"]),
        ("fn fni_a(x) = x + 1", vec!["fni_a(2)"]),
        ("fn fni_a(x) = x + 1 m", vec!["fni_a(2 cm)"]),
        ("fn fni_a(x) = x < 1 s", vec!["fni_a(2 ms)"]),
        ("fn fni_a(x) = sqrt(x)", vec!["fni_a(4 m^2)"]),
        ("fn fni_a(x) = sqrt(x) * cbrt(x)", vec!["fni_a(4 m^6)"]),
        ("fn fni_a(x, y) = hypot2(x, y) / x", vec!["fni_a(3 m, 4 m)"]),
        ("fn fni_a(x) = mean([x, 2 x])", vec!["fni_a(4 m)"]),
        ("fn fni_a(x) = map(sqr, x)", vec!["fni_a([1 m, 2 m])"]),
        ("fn fni_a(x) = 0", vec!["fni_a(1)", "fni_a(1) + 2 m"]),
        ("fn fni_a(x) = 0 + x * 0", vec!["fni_a(1 m)"]),
        ("fn fni_a(x) = dt1 + x", vec!["fni_a(2 days)"]),
        ("fn fni_a(x) = x -> cm", vec!["fni_a(2 m)"]),
        ("fn fni_a(x) = -x!", vec!["fni_a(3)"]),
    ] {
        out.push(cp("inferred signature", decl, &probes.iter().map(|s| s.to_string()).collect::<Vec<_>>()));
    }
    // where clauses
    let locals = ["la = x * 2", "lb = la + x", "lc = lb^2 / la", "ld: Length = 3 m", "le = if x > 0 * x then la else lb"];
    for n in 1..=locals.len() {
        for start in 0..=(locals.len() - n) {
            let sel = &locals[start..start + n];
            if sel.iter().any(|l| (l.contains("la") && !l.starts_with("la") && !sel.iter().any(|m| m.starts_with("la"))) || (l.contains("lb") && !l.starts_with("lb") && !sel.iter().any(|m| m.starts_with("lb")))) {
                continue;
            }
            let last = sel.last().unwrap().split([' ', ':']).next().unwrap();
            for layout in [0, 1] {
                let mut s = format!("fn fnw_a(x) = {last} * x");
                for (i, l) in sel.iter().enumerate() {
                    let kw = if i == 0 { "where" } else { "and" };
                    if layout == 0 {
                        s.push_str(&format!("\n  {kw} {l}"));
                    } else {
                        s.push_str(&format!(" {kw} {l}"));
                    }
                }
                out.push(cp("where clause", s, &["fnw_a(2 m)".into(), "fnw_a(3)".into(), "fnw_a(-1 m)".into()]));
            }
        }
    }
    for (decl, probes) in [
        ("fn fnw_a<A: Dim>(x: A) -> A^2 = la * lb\n  where la: A = x + x\n    and lb: A = la - x", vec!["fnw_a(2 m)"]),
        ("fn fnw_a(x: Length) -> Length = la -> cm\n  where la = x + 1 m", vec!["fnw_a(2 m)"]),
        ("fn fnw_a(x) = la where la = if x then 1 else 2", vec!["fnw_a(true)"]),
        ("fn fnw_a(x) = la.px where la = Pt2 { px: x, py: x }", vec!["fnw_a(3)"]),
        ("fn fnw_a(x) = la(x) where la = sqrt", vec!["fnw_a(4)"]),
        ("fn fnw_a(x) = \"{la}\" where la = \"in {x}\"", vec!["fnw_a(4)"]),
        ("fn fnw_a(x) = head(la) where la = [x, x]", vec!["fnw_a(4 m)"]),
    ] {
        out.push(cp("where clause", decl, &probes.iter().map(|s| s.to_string()).collect::<Vec<_>>()));
    }
    out
}

const STRS: [&str; 9] = ["plain", "two words", "q\\\"uote", "br{{ace}}", "back\\\\slash", "uni°é✓", "", "trailing ", "it's"];

fn decorated_definitions(thorough: bool) -> Vec<Case> {
    let mut out = vec![];
    let alias_forms = ["", "@aliases(ua)", "@aliases(ua: short)", "@aliases(ua: long)", "@aliases(ua: both)", "@aliases(ua: none)", "@aliases(ua: short, ub: long, uc: both, ud: none)", "@aliases()"];
    let prefix_forms = ["", "@metric_prefixes", "@binary_prefixes", "@metric_prefixes\n@binary_prefixes"];
    let unit_forms = ["unit uz", "unit uz: Length", "unit uz = 2 m", "unit uz: Length = 2 m", "unit uz: Length / Time = 2 m / s", "unit uz = 2"];
    let probes: Vec<String> = ["1 uz", "1 kuz", "1 kilouz", "1 Kiuz", "1 kibiuz", "1 ua", "1 kua", "1 kiloua", "1 Kiua", "1 ub", "1 kub", "1 kiloub", "1 uc", "1 kuc", "1 kilouc", "1 ud", "1 kud", "2 uz + 3 ua", "2 kua -> uz", "2 uz -> m", "2 uz |> unit_name?"]
        .iter()
        .filter(|s| !s.contains('?'))
        .map(|s| s.to_string())
        .collect();
    // every alias form x prefix form x unit form
    for al in alias_forms {
        for pf in prefix_forms {
            for uf in unit_forms {
                let mut s = String::new();
                for d in [al, pf] {
                    if !d.is_empty() {
                        s.push_str(d);
                        s.push('\n');
                    }
                }
                s.push_str(uf);
                out.push(cp("unit decorators", s, &probes));
            }
        }
    }
    // string-valued decorators, each string of the alphabet, singly and in pairs
    let sdec = ["name", "url", "description"];
    let strs: Vec<&str> = if thorough { STRS.to_vec() } else { STRS[..6].to_vec() };
    for d in sdec {
        for s in &strs {
            for uf in ["unit uz", "unit uz: Length = 2 m"] {
                out.push(cp("unit decorators", format!("@{d}(\"{s}\")\n{uf}"), &probes));
                out.push(cp("unit decorators", format!("@{d}(\"{s}\")\n@aliases(ua: short)\n@metric_prefixes\n{uf}"), &probes));
            }
            out.push(cp("let decorators", format!("@{d}(\"{s}\")\nlet lv = 2 m"), &["lv".into()]));
            out.push(cp("fn decorators", format!("@{d}(\"{s}\")\nfn fnz_a(x) = 2 x"), &["fnz_a(2)".into()]));
            for d2 in sdec {
                for s2 in &strs {
                    if thorough || (s.len() + s2.len()) % 3 == 0 {
                        out.push(cp("unit decorators", format!("@{d}(\"{s}\")\n@{d2}(\"{s2}\")\nunit uz: Length = 2 m"), &probes));
                    }
                }
            }
        }
    }
    for s in &strs {
        out.push(cp("fn decorators", format!("@example(\"fnz_a(2)\", \"{s}\")\nfn fnz_a(x) = 2 x"), &["fnz_a(2)".into()]));
        out.push(cp("fn decorators", format!("@example(\"{s}\")\nfn fnz_a(x) = 2 x"), &["fnz_a(2)".into()]));
    }
    for al in alias_forms {
        if al.is_empty() {
            continue;
        }
        out.push(cp("let decorators", format!("{al}\nlet lv = 2 m"), &["lv".into(), "ua".into(), "ub + uc".into(), "ud".into(), "2 ua -> cm".into()]));
        out.push(cp("let decorators", format!("@name(\"n\")\n{al}\nlet lv: Length = 2 m"), &["lv".into(), "ua".into()]));
    }
    out
}

fn strings(thorough: bool) -> Vec<Case> {
    let mut out = vec![];
    let pieces = ["a", " ", "\\n", "\\t", "\\r", "\\\"", "\\\\", "{{", "}}", "\\0", "'", "°", "é✓", "{x2}", "{1 + 2}", "{2 m}", "{sv}", "{bt}", "{x2:>8}", "{x2:.3f}", "{x2:08.2f}", "{1 / 3:.3e}", "{sv:>6}", "{sv:^9}", "{if bt then 1 else 2}", "{[1, 2]}", "{pt}", "{pt.px}", "{sq(2)}", "{-x2}", "{x2 -> percent}", "{dt1}", "{x2:x}", "{2^10:#b}", "{\"in\"}", "{\"{x2}\"}"];
    for a in pieces {
        out.push(c("string", format!("\"{a}\"")));
        for b in pieces {
            out.push(c("string", format!("\"{a}{b}\"")));
            if thorough {
                for d in pieces.iter().step_by(3) {
                    out.push(c("string", format!("\"{a}{b}{d}\"")));
                }
            }
        }
    }
    for a in pieces {
        out.push(c("string", format!("str_length(\"{a}\") + 1")));
        out.push(c("string", format!("[\"{a}\", \"x\"]")));
        out.push(c("string", format!("\"{a}\" == \"x\"")));
        out.push(c("string", format!("if bt then \"{a}\" else \"\"")));
        out.push(c("string", format!("let sq2 = \"{a}\"\nsq2")));
        out.push(c("string", format!("print(\"{a}\")")));
        out.push(c("string", format!("fn fns_a(x) = \"{a}|{{x}}\"\nfns_a(3)")));
        out.push(c("string", format!("str_append(\"{a}\", \"{a}\")")));
    }
    out
}

fn temperature_and_dates() -> Vec<Case> {
    let mut out = vec![];
    let xs = ["20", "-5", "(2 + 3)", "x2", "2 x2", "2^2", "sq(2)", "(-x2)", "0.1", "(if bt then 1 else 2)", "3!"];
    let mut ts: Vec<String> = vec![];
    for x in xs {
        ts.push(format!("from_celsius({x})"));
        ts.push(format!("from_fahrenheit({x})"));
        ts.push(format!("celsius(({x}) K)"));
        ts.push(format!("fahrenheit(({x}) K)"));
        ts.push(format!("({x}) K -> celsius"));
        ts.push(format!("({x}) K |> fahrenheit"));
        ts.push(format!("°C(({x}) K)"));
        ts.push(format!("({x}) K -> °F"));
        ts.push(format!("degree_celsius(({x}) K)"));
        ts.push(format!("{x} °C"));
        ts.push(format!("{x} °F"));
        ts.push(format!("{x} celsius"));
    }
    for t in &ts {
        out.push(c("temperature sugar", t.clone()));
        for ctx in [
            "({T}) + 1 K", "1 K + ({T})", "({T}) * 2", "2 * ({T})", "({T}) / 2", "2 / ({T})", "-({T})", "({T})^2", "2^({T})", "({T})!", "sq({T})", "[{T}]", "[{T}, {T}]", "if bt then ({T}) else ({T})", "({T}) -> K", "({T}) -> mK",
            "({T}) + 1", "({T}) - 1", "1 - ({T})", "({T}) < 300 K", "({T}) < 300", "300 > ({T})", "({T}) |> celsius", "({T}) -> °C", "({T}) -> °F", "celsius({T})", "from_celsius({T})", "\"{{T}}\"", "({T}) per 2", "idf({T})", "({T}) K", "({T}) == ({T})",
            "let tq = {T}\ntq", "fn fntq_a(x) = {T}\nfntq_a(1)",
        ] {
            out.push(c("temperature sugar in context", ctx.replace("{T}", t)));
        }
    }
    // date arithmetic
    let ds = ["dt1", "dt2", "datetime(\"2022-07-20T21:52:00Z\")", "(dt1 + 1 day)"];
    let durs = ["3 days", "1 hour", "2 s + 3 ms", "(2 + 3) min", "-1 day", "x2 s"];
    for d in ds {
        out.push(c("date arithmetic", d.to_string()));
        out.push(c("date arithmetic", format!("{d} -> tz(\"Europe/Berlin\")")));
        out.push(c("date arithmetic", format!("{d} -> local")));
        out.push(c("date arithmetic", format!("{d} |> unixtime")));
        out.push(c("date arithmetic", format!("format_datetime(\"%Y\", {d})")));
        for du in durs {
            out.push(c("date arithmetic", format!("{d} + {du}")));
            out.push(c("date arithmetic", format!("{d} - {du}")));
            out.push(c("date arithmetic", format!("{du} + {d}")));
            out.push(c("date arithmetic", format!("({d} + {du}) - {du}")));
            out.push(c("date arithmetic", format!("{d} + ({du} + {du})")));
            out.push(c("date arithmetic", format!("{d} + {du} -> tz(\"UTC\")")));
            out.push(c("date arithmetic", format!("({d} + {du}) -> tz(\"UTC\")")));
        }
        for e in ds {
            out.push(c("date arithmetic", format!("{d} - {e}")));
            out.push(c("date arithmetic", format!("({d} - {e}) -> days")));
            out.push(c("date arithmetic", format!("{d} - {e} -> days")));
            out.push(c("date arithmetic", format!("({d} - {e}) * 2")));
            out.push(c("date arithmetic", format!("2 * ({d} - {e})")));
            out.push(c("date arithmetic", format!("({d} - {e}) + 1 s")));
            out.push(c("date arithmetic", format!("1 s + ({d} - {e})")));
            out.push(c("date arithmetic", format!("-({d} - {e})")));
            out.push(c("date arithmetic", format!("({d} - {e})^2")));
            out.push(c("date arithmetic", format!("{d} < {e}")));
            out.push(c("date arithmetic", format!("{d} - ({d} - {e})")));
            out.push(c("date arithmetic", format!("if {d} < {e} then {d} else {e}")));
        }
    }
    out
}

fn literals_and_procedures() -> Vec<Case> {
    let mut out = vec![];
    // spellings whose value is exactly representable in the printed precision (6 significant digits)
    for l in [
        "0", "1", "2.5", "0.5", ".5", "1.", "1e3", "1E3", "1e+3", "1e-3", "2.5e-3", "1_000", "1_000_000", "123456", "0.000123", "1.5e10", "1e10", "1e15", "1e20", "1e21", "1e22", "1e100", "1e300", "1e-7", "1e-300", "0x1F", "0xff", "0o17", "0b101", "0b1111_0000", "1e0", "00012", "1.000",
        "12345.5", "100000", "999999", "0.1", "0.25", "1.25e-5", "6.02e23", "inf", "-inf", "NaN", "pi", "e", "τ", "π",
    ] {
        out.push(c("number literal", l.to_string()));
        out.push(c("number literal", format!("{l} m")));
        out.push(c("number literal", format!("-{l}")));
        out.push(c("number literal", format!("{l} + {l}")));
        out.push(c("number literal", format!("2^{l}")));
        out.push(c("number literal", format!("{l}^2")));
        out.push(c("number literal", format!("{l} x2")));
        out.push(c("number literal", format!("let nq = {l}\nnq")));
        out.push(c("number literal", format!("[{l}, {l}]")));
    }
    for p in [
        "print(2)", "print(2 m)", "print(\"a\")", "print(bt)", "print([1, 2])", "print(pt)", "print(2 + 3 * 4)", "print(if bt then 1 else 2)", "print(2 m -> cm)", "print()", "assert(bt)", "assert(2 < 3)", "assert(!(3 < 2))", "assert_eq(2, 2)", "assert_eq(2 m, 200 cm)",
        "assert_eq(2 m, 200.1 cm, 1 cm)", "assert_eq(2 + 3, 5)", "assert_eq(\"a\", \"a\")", "assert_eq([1], [1])", "assert_eq(2 m -> cm, 200 cm)", "assert_eq(if bt then 1 else 2, 1)", "type(2)", "type(2 m)", "type(sqrt)", "type(pt)", "type([1 m])", "type(2 m / s -> km/h)",
        "type(\"a\")", "type(if bt then 1 else 2)", "use extra::algebra", "use core::functions", "use units::si", "use extra::color\nblack", "use extra::algebra\nquadratic_equation(1, 0, -1)",
    ] {
        out.push(c("procedures and use", p.to_string()));
    }
    // lists, structs
    for l in ["[]", "[1]", "[1, 2]", "[[1], [2, 3]]", "[[]]", "[1 m, 2 cm]", "[pt, pu]", "[sqrt, sqr]", "[\"a\", \"b\"]", "[bt, !bt]", "[dt1]", "[1 + 2, 3 * 4]", "[-1, 2!]", "[2 m -> cm]", "[if bt then 1 else 2]"] {
        out.push(c("list literal", l.to_string()));
        out.push(c("list literal", format!("len({l})")));
        out.push(c("list literal", format!("{l} |> len")));
        out.push(c("list literal", format!("cons_end(1, []) |> len")));
        out.push(c("list literal", format!("let lq = {l}\nlq")));
        out.push(c("list literal", format!("concat({l}, {l})")));
    }
    for s in ["Pt2 { px: 1, py: 2 }", "Pt2 { py: 2, px: 1 }", "Pt2 { px: 1 + 2, py: -3 }", "Pt2 { px: if bt then 1 else 2, py: 2 m / (1 cm) }", "Pair { p1: 2 m, p2: 3 s }", "Pair { p2: 3 s, p1: 2 m -> cm }", "Pair { p1: 2 m + 3 cm, p2: 1 / (2 Hz) }"] {
        out.push(c("struct literal", s.to_string()));
        out.push(c("struct literal", format!("[{s}]")));
        out.push(c("struct literal", format!("idf({s})")));
        out.push(c("struct literal", format!("let sq3 = {s}\nsq3")));
        out.push(c("struct literal", format!("if bt then {s} else {s}")));
    }
    out
}

pub fn build(thorough: bool) -> Vec<Case> {
    let mut v = vec![];
    v.extend(operator_nestings(thorough));
    v.extend(boolean_and_conditional(thorough));
    v.extend(annotations_and_dimensions(thorough));
    v.extend(inferred_functions(thorough));
    v.extend(decorated_definitions(thorough));
    v.extend(strings(thorough));
    v.extend(temperature_and_dates());
    v.extend(literals_and_procedures());
    v
}

// ------------------------------------------------------------------------------------------------
// oracle

fn show_outcome(r: &RunResult) -> String {
    let mut s = r.fingerprint();
    if let Some(t) = &r.last_type {
        s.push_str(&format!(" : {t}"));
    }
    if !r.printed.is_empty() {
        s.push_str(&format!(" printed {:?}", r.printed));
    }
    s
}

/// value fingerprints are bit-exact; NaN payloads are not distinguished
fn same_outcome(a: &RunResult, b: &RunResult) -> bool {
    a.fingerprint() == b.fingerprint() && a.last_type == b.last_type && a.printed == b.printed
}

// --- classification of the recorded findings (narrow, decided from the input and its echo) -------

#[derive(Clone, PartialEq, Debug)]
enum Sx {
    Atom(String),
    List(Vec<Sx>),
}

fn parse_sx(s: &str) -> Option<Vec<Sx>> {
    let cs: Vec<char> = s.chars().collect();
    let mut stack: Vec<Vec<Sx>> = vec![vec![]];
    let mut i = 0;
    while i < cs.len() {
        let ch = cs[i];
        if ch.is_whitespace() {
            i += 1;
        } else if ch == '(' {
            stack.push(vec![]);
            i += 1;
        } else if ch == ')' {
            let l = stack.pop()?;
            stack.last_mut()?.push(Sx::List(l));
            i += 1;
        } else if ch == '"' {
            let mut j = i + 1;
            while j < cs.len() && cs[j] != '"' {
                if cs[j] == '\\' {
                    j += 1;
                }
                j += 1;
            }
            stack.last_mut()?.push(Sx::Atom(cs[i..(j + 1).min(cs.len())].iter().collect()));
            i = j + 1;
        } else {
            let mut j = i;
            while j < cs.len() && !cs[j].is_whitespace() && cs[j] != '(' && cs[j] != ')' {
                j += 1;
            }
            stack.last_mut()?.push(Sx::Atom(cs[i..j].iter().collect()));
            i = j;
        }
    }
    if stack.len() != 1 {
        return None;
    }
    stack.pop()
}

/// unit identifiers resolved, annotations and decorators dropped, nested sums / products flattened
fn normal_sx(ctx: &Context, x: &Sx, flatten: bool) -> Sx {
    match x {
        Sx::Atom(a) => Sx::Atom(a.clone()),
        Sx::List(l) => {
            let head = match l.first() {
                Some(Sx::Atom(h)) => h.as_str(),
                _ => "",
            };
            if head == "id" && l.len() == 2 {
                if let Sx::Atom(name) = &l[1] {
                    if let numbat::verif::Resolved::Unit { prefix_kind, prefix_exponent, full_name, .. } = ctx.verif_resolve(name) {
                        return Sx::Atom(format!("unit:{prefix_kind}{prefix_exponent}:{full_name}"));
                    }
                }
            }
            if head == "let" && l.len() == 5 {
                return Sx::List(vec![l[0].clone(), l[1].clone(), normal_sx(ctx, &l[3], flatten)]);
            }
            let kids: Vec<Sx> = l.iter().map(|k| normal_sx(ctx, k, flatten)).collect();
            if flatten && (head == "+" || head == "*") && kids.len() == 3 {
                let mut out = vec![kids[0].clone()];
                for k in &kids[1..] {
                    match k {
                        Sx::List(kl) if kl.first() == Some(&kids[0]) => out.extend(kl[1..].iter().cloned()),
                        other => out.push(other.clone()),
                    }
                }
                return Sx::List(out);
            }
            Sx::List(kids)
        }
    }
}

fn same_up_to_regrouping(ctx: &Context, code: &str, echo: &str) -> bool {
    let (Ok(a), Ok(b)) = (numbat::verif::parse_sexpr(code), numbat::verif::parse_sexpr(echo)) else {
        return false;
    };
    let (Some(a), Some(b)) = (parse_sx(&a), parse_sx(&b)) else {
        return false;
    };
    let strict = |v: &Vec<Sx>| v.iter().map(|x| normal_sx(ctx, x, false)).collect::<Vec<_>>();
    let loose = |v: &Vec<Sx>| v.iter().map(|x| normal_sx(ctx, x, true)).collect::<Vec<_>>();
    strict(&a) != strict(&b) && loose(&a) == loose(&b)
}

fn ascii_exponents(s: &str) -> String {
    let sup = |c: char| "⁰¹²³⁴⁵⁶⁷⁸⁹".chars().position(|d| d == c);
    let cs: Vec<char> = s.chars().collect();
    let mut out = String::new();
    let mut i = 0;
    while i < cs.len() {
        let neg = cs[i] == '⁻' && i + 1 < cs.len() && sup(cs[i + 1]).is_some();
        if neg || sup(cs[i]).is_some() {
            let mut j = if neg { i + 1 } else { i };
            let mut digits = String::new();
            while j < cs.len() && sup(cs[j]).is_some() {
                digits.push(char::from(b'0' + sup(cs[j]).unwrap() as u8));
                j += 1;
            }
            if neg {
                out.push_str(&format!("^(-{digits})"));
            } else {
                out.push_str(&format!("^{digits}"));
            }
            i = j;
        } else {
            out.push(cs[i]);
            i += 1;
        }
    }
    out
}

/// `-( … °C)` / `-( … °F)`: the negation of a temperature written with the sugar
fn has_negated_temperature_sugar(echo: &str) -> bool {
    let cs: Vec<char> = echo.chars().collect();
    for i in 0..cs.len().saturating_sub(1) {
        if cs[i] == '-' && cs[i + 1] == '(' {
            let mut depth = 0;
            for j in (i + 1)..cs.len() {
                match cs[j] {
                    '(' => depth += 1,
                    ')' => {
                        depth -= 1;
                        if depth == 0 {
                            let inner: String = cs[i + 2..j].iter().collect();
                            if inner.ends_with(" °C") || inner.ends_with(" °F") {
                                return true;
                            }
                            break;
                        }
                    }
                    _ => {}
                }
            }
        }
    }
    false
}

#[derive(Clone, Copy, PartialEq)]
pub enum Fail {
    Rejected,
    Type,
    Value,
    Fixpoint,
    Probe,
}

pub fn classify(ctx: &Context, code: &str, echo: &str, echo2: Option<&str>, kind: Fail) -> String {
    let c = |s: &str| format!("CLASS:{s}");
    if kind == Fail::Rejected {
        if echo.contains("forall ") {
            return c("echo-forall-annotation");
        }
        // `let x: Energy or Torque = …`: the readable type lists every matching dimension name
        let ambiguous = echo.lines().any(|l| {
            let Some(p) = l.find(" or ") else { return false };
            let before = &l[..p];
            let after = &l[p + 4..];
            before.contains(": ") && before.rsplit(": ").next().map(|t| t.chars().all(|ch| ch.is_alphanumeric() || ch == '_')).unwrap_or(false) && after.chars().next().map(|ch| ch.is_uppercase()).unwrap_or(false)
        });
        if ambiguous {
            return c("echo-ambiguous-dimension-name");
        }
        // `unit foo` (no annotation, no definition) is echoed with the dimension it implicitly creates
        for l in code.lines() {
            if let Some(name) = l.strip_prefix("unit ") {
                if !name.contains(':') && !name.contains('=') {
                    let name = name.trim();
                    let mut dim: Vec<char> = name.chars().collect();
                    if let Some(f) = dim.first_mut() {
                        *f = f.to_ascii_uppercase();
                    }
                    let dim: String = dim.into_iter().collect();
                    if echo.lines().any(|e| e == format!("unit {name}: {dim}")) {
                        return c("echo-implicit-base-dimension");
                    }
                }
            }
        }
        // `struct S<D: Dim> { … }` is echoed without its type parameters
        for l in code.lines() {
            if let Some(rest) = l.strip_prefix("struct ") {
                if let Some(p) = rest.find('<') {
                    let name = &rest[..p];
                    if rest[..rest.find('{').unwrap_or(rest.len())].contains('<') && echo.lines().any(|e| e.starts_with(&format!("struct {name} {{"))) {
                        return c("echo-generic-struct-parameters");
                    }
                }
            }
        }
    }
    // a generic function whose echoed type-parameter list is not the declared one (names are
    // re-assigned by position after the checker has reordered the quantified variables)
    if let (Some(src), Some(ech)) = (code.lines().next(), echo.lines().next()) {
        let list = |l: &str| -> Option<Vec<String>> {
            let rest = l.strip_prefix("fn ")?;
            let lt = rest.find('<')?;
            let paren = rest.find('(')?;
            if lt > paren {
                return None;
            }
            let gt = rest[lt..].find('>')? + lt;
            let mut v: Vec<String> = rest[lt + 1..gt].split(',').map(|x| x.replace(' ', "")).collect();
            v.sort();
            Some(v)
        };
        if let (Some(a), Some(b)) = (list(src), list(ech)) {
            if a != b {
                return c("echo-generic-parameter-renaming");
            }
            // the second echo may be the one that re-assigns the names
            if let Some(b2) = echo2.and_then(|e| e.lines().next()).and_then(list) {
                if b2 != b {
                    return c("echo-generic-parameter-renaming");
                }
            }
        }
        // a where-local of a generic function is annotated with the checker's canonical letters
        // (A, B, …) instead of the function's own type parameters
        if let Some(rest) = ech.strip_prefix("fn ") {
            let declared: Vec<String> = match (rest.find('<'), rest.find('(')) {
                (Some(lt), Some(p)) if lt < p => rest[lt + 1..rest[lt..].find('>').map(|g| g + lt).unwrap_or(lt + 1)].split(',').map(|x| x.split(':').next().unwrap_or("").trim().to_string()).collect(),
                _ => vec![],
            };
            for l in echo.lines().skip(1) {
                let t = l.trim_start();
                if let Some(rest) = t.strip_prefix("where ").or_else(|| t.strip_prefix("and ")) {
                    if let (Some(colon), Some(eq)) = (rest.find(": "), rest.find(" = ")) {
                        if colon < eq {
                            let ann = &rest[colon + 2..eq];
                            let stray = ann.split(|ch: char| !ch.is_alphanumeric()).any(|w| w.len() == 1 && w.chars().all(|ch| ch.is_ascii_uppercase()) && !declared.iter().any(|d| d == w));
                            if stray {
                                return c("echo-where-local-type-variable");
                            }
                        }
                    }
                }
            }
        }
    }
    if (kind == Fail::Value || kind == Fail::Rejected || kind == Fail::Type) && has_negated_temperature_sugar(echo) {
        return c("echo-negated-temperature-sugar");
    }
    if kind == Fail::Fixpoint {
        if let Some(e2) = echo2 {
            if ascii_exponents(echo) == ascii_exponents(e2) && echo != e2 {
                return c("echo-inferred-exponent-spelling");
            }
        }
    }
    if (kind == Fail::Value || kind == Fail::Fixpoint) && same_up_to_regrouping(ctx, code, echo) {
        return c("echo-regroups-sum-or-product");
    }
    String::new()
}

pub fn judge(base: &Context, code: &str, probes: &[String]) -> Result<&'static str, String> {
    let mut c1 = base.clone();
    let r1 = run(&mut c1, code);
    if !r1.is_ok() {
        // rejected, run-time failure or crash: outside this property's quantifier (C08/C01 look at those)
        return Ok("not accepted");
    }
    let p = r1.statements.join("\n");
    let mut c2 = base.clone();
    let r2 = run(&mut c2, &p);
    let pshow = p.replace('\n', "⏎");
    let fail = |kind: Fail, p2: Option<&str>, m: String| -> Result<&'static str, String> { Err(format!("{}{}", classify(base, code, &p, p2, kind), m)) };
    if !r2.is_ok() {
        return fail(Fail::Rejected, None, format!(" is echoed as `{pshow}`, which is not accepted: {}", r2.err_string().unwrap_or_default().lines().next().unwrap_or("")));
    }
    if r1.last_type != r2.last_type {
        return fail(Fail::Type, None, format!(" is echoed as `{pshow}`, which has type {:?} instead of {:?}", r2.last_type, r1.last_type));
    }
    if !same_outcome(&r1, &r2) {
        return fail(Fail::Value, None, format!(" is echoed as `{pshow}`, which evaluates to {} instead of {}", show_outcome(&r2), show_outcome(&r1)));
    }
    let p2 = r2.statements.join("\n");
    if p2 != p {
        return fail(Fail::Fixpoint, Some(&p2), format!(" is echoed as `{pshow}`, whose own echo is the different text `{}`", p2.replace('\n', "⏎")));
    }
    for pr in probes {
        let mut d1 = c1.clone();
        let mut d2 = c2.clone();
        let q1 = run(&mut d1, pr);
        let q2 = run(&mut d2, pr);
        if !same_outcome(&q1, &q2) {
            return fail(Fail::Probe, None, format!(" is echoed as `{pshow}`; afterwards `{}` gives {} after the echo but {} after the input", pr.replace('\n', "⏎"), show_outcome(&q2), show_outcome(&q1)));
        }
    }
    Ok("round trip")
}

pub fn check(rep: &mut Report) {
    let thorough = rep.tier == Tier::Thorough;
    let w = match World::build() {
        Ok(w) => w,
        Err(e) => {
            rep.machinery_error(e);
            return;
        }
    };
    let base_a = base_a();
    let mut cases = build(thorough);
    // the C02 program space: thorough tier in full; the quick tier keeps its definition families
    // (annotated lets, functions, unit and dimension definitions) and drops the plain expressions,
    // whose operator shapes the nesting families above cover
    for cse in build_cases(&w, thorough) {
        if thorough || cse.code.contains('\n') || cse.code.starts_with("let ") || cse.code.starts_with("fn ") || cse.code.starts_with("unit ") || cse.code.starts_with("dimension ") {
            cases.push(c("C02 program space", cse.code));
        }
    }
    // C09 expression space over its scaffold session + the scaffold definitions themselves
    let defs = c09::scaffold();
    let sess = match c09::build_session(&defs) {
        Ok(s) => s,
        Err(e) => {
            rep.machinery_error(e);
            return;
        }
    };
    let base_b = sess.ctx.clone();
    drop(sess);
    {
        let mut g = c09::Gen::new();
        let size = if thorough { 5 } else { 4 };
        for ty in [c09::Ty::Num, c09::Ty::Bool, c09::Ty::List, c09::Ty::Str, c09::Ty::Struct, c09::Ty::Fun] {
            for e in g.upto(ty, size) {
                cases.push(Case { family: "C09 expression space", base: 1, code: e.render(), probes: vec![], expr: Some(e) });
            }
        }
    }
    for d in &defs {
        let src = c09::render_def(d);
        if src.starts_with("struct") {
            continue;
        }
        cases.push(Case { family: "C09 scaffold definition", base: 1, code: src, probes: vec!["ff(3)".into(), "gf(3)".into(), "gv(3)".into(), "hf(3)".into(), "fib(7)".into(), "ap(ff, 2)".into(), "pv".into(), "xs".into(), "xv + yv".into()], expr: None });
    }
    {
        let mut seen = std::collections::HashSet::new();
        cases.retain(|k| seen.insert((k.base, k.code.clone())));
    }
    let n = cases.len();
    let outs: Vec<Result<&'static str, String>> = par_map(
        n,
        || c09::reference_env(&c09::scaffold()).expect("scaffold"),
        |env, i| {
            let k = &cases[i];
            if let Some(e) = &k.expr {
                if !c09::terminates(env, e) {
                    return Ok("not run: reference does not terminate within fuel");
                }
            }
            let base = if k.base == 0 { &base_a } else { &base_b };
            watch::watched("C15", "code", &k.code, || judge(base, &k.code, &k.probes))
        },
    );
    rep.states = n as u64;
    let mut per_family: std::collections::BTreeMap<&'static str, (u64, u64)> = Default::default();
    for (i, o) in outs.into_iter().enumerate() {
        rep.transitions += 1;
        rep.evaluations += 1;
        let k = &cases[i];
        let e = per_family.entry(k.family).or_default();
        e.0 += 1;
        let shown = k.code.replace('\n', "⏎");
        match o {
            Ok("round trip") => {
                e.1 += 1;
                rep.validated += 1;
                rep.nontrivial_extra += 1;
                if i % 499 == 3 {
                    rep.outcome(&shown);
                }
                if i % 9973 == 11 && rep.samples.len() < 12 {
                    rep.sample(json!({"family": k.family, "statement": k.code}));
                }
            }
            Ok(_) => {}
            Err(m) => {
                let replay = json!({"code": k.code, "base": k.base, "probes": k.probes});
                if let Some(rest) = m.strip_prefix("CLASS:") {
                    let class = rest.split(' ').next().unwrap_or("");
                    rep.violation(format!("class:{class}"), format!("`{shown}`{}", &rest[class.len()..]), replay);
                } else {
                    rep.violation(format!("input:{shown}"), format!("`{shown}`{m}"), replay);
                }
            }
        }
    }
    rep.set("statements", json!(n));
    rep.set("per_family_generated_and_round_tripped", json!(per_family.iter().map(|(k, v)| (k.to_string(), json!([v.0, v.1]))).collect::<serde_json::Map<_, _>>()));
    rep.rule = "statements enumerated per family: fully parenthesised operator nestings of depth <= 2 over {2, 0.1, x2, m} (thorough: + s, 3) x {+ - * / ^ per -> juxtaposition, unary -, !, ², call} (thorough: + every depth-3 chain), boolean/comparison nestings, conditionals in every operand position and as receiver of field access / call / conversion, type and dimension expressions of depth <= 2 with exponents {2,3,-1,1/3,-2/3,2/3,12,15,0} in every annotation position, inferred signatures with exponent denominators up to 15, every prefix (long and short) on four units, where clauses, every decorator form x unit form, strings over an escape/interpolation/format-specifier alphabet (all pairs), temperature sugar in every operand position, date arithmetic, number spellings, procedure calls, the C02 program space and the C09 expression space; non-trivial = accepted statements whose echo was re-interpreted and compared (type, bit-exact value, printed output, second echo, probes of the defined names)".into();
    rep.assumptions = vec![
        "the echo is the plain text of Statement::pretty_print as returned by Context::interpret_with_settings; input and echo are interpreted in two clones of the same pre-state".into(),
        "number literals are restricted to values that print exactly in 6 significant digits (the property's proviso); values are compared bit-exactly".into(),
        "string-valued decorators (@name/@url/@description/@example) are only required to survive as text of the echo (second echo identical); aliases and prefixes are probed by use".into(),
    ];
}

pub fn replay(case: &J) -> i32 {
    let code = case["code"].as_str().unwrap_or("");
    let base = if case["base"].as_u64().unwrap_or(0) == 0 {
        base_a()
    } else {
        match c09::build_session(&c09::scaffold()) {
            Ok(s) => s.ctx.clone(),
            Err(e) => {
                println!("{e}");
                return 2;
            }
        }
    };
    let probes: Vec<String> = case["probes"].as_array().map(|a| a.iter().filter_map(|x| x.as_str().map(|s| s.to_string())).collect()).unwrap_or_default();
    println!("{code}");
    match judge(&base, code, &probes) {
        Ok(v) => {
            println!("{v}: no violation on this tree");
            0
        }
        Err(e) => {
            println!("VIOLATION reproduced: `{code}`{e}");
            1
        }
    }
}
