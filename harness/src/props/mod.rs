use crate::common::{Report, Tier};

macro_rules! registry {
    ($( $id:literal => $m:ident ),* $(,)?) => {
        $( pub mod $m; )*
        fn dispatch_check(id: &str, rep: &mut Report) -> bool {
            match id {
                $( $id => { $m::check(rep); true } )*
                _ => false,
            }
        }
        fn dispatch_replay(id: &str, case: &serde_json::Value) -> Option<i32> {
            match id {
                $( $id => Some($m::replay(case)), )*
                _ => None,
            }
        }
        pub fn all_ids() -> Vec<&'static str> { vec![$( $id ),*] }
    };
}

pub mod dimprog;

registry! {
    "BENCH" => bench,
    "C01" => c01,
    "C02" => c02,
    "C03" => c03,
    "C04" => c04,
    "C05" => c05,
    "C06" => c06,
    "C19" => c19,
    "C20" => c20,
    "C21" => c21,
    "C22" => c22,
    "C23" => c23,
    "C24" => c24,
    "C07" => c07,
    "C08" => c08,
    "C09" => c09,
    "C10" => c10,
    "C11" => c11,
    "C12" => c12,
    "C13" => c13,
    "C14" => c14,
    "C15" => c15,
    "C16" => c16,
    "C17" => c17,
    "C18" => c18,
}

pub fn run_check(id: &str, tier: Tier) -> i32 {
    let mut rep = Report::new(id, tier);
    let r = crate::common::guarded(|| {
        if !dispatch_check(id, &mut rep) {
            eprintln!("unknown or unimplemented property {id} (have: {:?})", all_ids());
            rep.machinery_error(format!("no check for {id}"));
        }
    });
    if let Err(p) = r {
        eprintln!(
            "MACHINERY-ERROR: engine panicked: {} at {}",
            p.message, p.location
        );
        return 2;
    }
    rep.finish()
}

pub fn replay(path: &str) -> i32 {
    let Ok(text) = std::fs::read_to_string(path) else {
        eprintln!("cannot read {path}");
        return 2;
    };
    let Ok(j) = serde_json::from_str::<serde_json::Value>(&text) else {
        eprintln!("cannot parse {path}");
        return 2;
    };
    let prop = j["property"].as_str().unwrap_or("").to_string();
    println!("replaying {} case: {}", prop, j["what"]);
    crate::common::set_quiet_panics(false);
    match dispatch_replay(&prop, &j["case"]) {
        Some(c) => c,
        None => {
            eprintln!("no replay for {prop}");
            2
        }
    }
}

pub fn child(args: &[String]) -> i32 {
    match (args.first().map(|s| s.as_str()), args.get(1)) {
        (Some("c08"), Some(path)) => c08::child_main(path),
        (Some("c08fn"), _) => c08::child_fn_main(&args[1..]),
        _ => 2,
    }
}
