//! C07 — incremental, batched and replayed sessions agree; copied sessions are independent.
//!
//! All histories up to length n over an alphabet of single-line inputs are enumerated depth-first
//! on real `Context`s; only histories whose inputs all succeed one at a time are kept.  For each:
//! every composition into contiguous blocks, the real `save` command + replay of the saved file
//! (line by line and as one input), and a fork at every prefix.

use crate::common::*;
use crate::obs::*;
use crate::props::c06::{TINY_MODULES, tiny_base};
use numbat::Context;
use numbat::command::{CommandControlFlow, CommandRunner};
use numbat::session_history::SessionHistory;
use serde_json::{Value as J, json};
use std::sync::atomic::{AtomicU64, Ordering};

pub struct Driver {
    pub name: &'static str,
    pub base: Context,
    pub alphabet: Vec<String>,
    pub probes: Vec<String>,
    /// failing lines injected into the pushed REPL history (must not be saved)
    pub failing: Vec<String>,
}

pub fn driver_tiny() -> Driver {
    let _ = TINY_MODULES;
    let alphabet = [
        "let a = 1",
        "let a = a + 1",
        "let b = a * 2",
        "fn f(x) = x + a",
        "fn f(x) = x * 2",
        "fn g(x) = f(x) + 1",
        "dimension D",
        "unit u: D",
        "a + 1",
        "f(2)",
        "ans + 1",
        "print(a)",
        "print(\"s\")",
        "use ma",
        "use mb",
        "ma_x + 1",
        "struct S { x: Scalar }",
        "S { x: a }.x",
        "let xs = [a, 2]",
        "let xs = cons(0, xs)",
        "head(tail(xs))",
        "let gg = f",
        "gg(3)",
        "  let   c = 2 m  ",
        // a result that the end-of-input simplification changes, and a consumer of `ans` whose
        // raw value is observed (hook): batched and incremental runs must agree on it
        "5 km / (2 m)",
        "let r = ans",
    ];
    let probes = [
        "a", "b", "c", "f(2)", "g(1)", "ans", "ma_x", "mb_y", "xs", "gg(1)", "2 u", "S { x: 1 }", "r",
    ];
    Driver {
        name: "tiny",
        base: tiny_base(),
        alphabet: alphabet.iter().map(|s| s.to_string()).collect(),
        probes: probes.iter().map(|s| s.to_string()).collect(),
        failing: ["1/0", "let = )", "nonexistent_name", "let u = 1/0", "dimension D\nlet q0 = 1/0", "fn f(x) = x\nlet q1 = 1/0", "let S = 1/0", "use ma\nlet q2 = 1/0", "let c: Length = 1", "unit xs\nlet q3 = 1/0", "unit a: D2", "use ma\nuse nonexistent", "use mb\nlet = )", "use mc\nlet meter = 1"].iter().map(|s| s.to_string()).collect(),
    }
}

pub fn driver_prelude() -> Driver {
    let alphabet = [
        "let a = 3 m",
        "let a = a + 1 km",
        "fn f(x) = x + a",
        "fn f(x) = 2 x",
        "a -> cm",
        "f(2 m)",
        "ans * 2",
        "print(a)",
        "use extra::algebra",
        "quadratic_equation(1, 0, -1)",
        "unit smoot2: Length = 1.7 m",
        "let xs = [1 m, 2 cm]",
        "sum(xs) + a",
        "let gg = f",
        "gg(3 m)",
        "5 km / (2 m)",
        "3 J / (2 s)",
        "let r = ans",
        "value_of(ans)",
        // two definitionally equal derived units (named against their definition order) and a result
        // that the end-of-input simplification may express in either
        "unit zed2 = kilogram * metre",
        "unit alp2 = kilogram * metre",
        "2 kg * 3 m",
    ];
    let probes = ["a", "f(1 m)", "ans", "xs", "gg(1 m)", "2 smoot2 -> m", "quadratic_equation(1, 0, -4)", "r"];
    Driver {
        name: "prelude",
        base: prelude_ctx(),
        alphabet: alphabet.iter().map(|s| s.to_string()).collect(),
        probes: probes.iter().map(|s| s.to_string()).collect(),
        failing: ["1/0", "1 m + 1 s", "let smoot2 = 1/0", "fn f(x) = x\nerror(\"stop\")", "unit gg\nlet q4 = 1/0", "let xs: Time = 1 m", "use extra::algebra\nuse nonexistent::module", "use extra::algebra\nlet = )"].iter().map(|s| s.to_string()).collect(),
    }
}

struct Agg {
    histories: u64,
    executions: u64,
    compositions: u64,
    forks: u64,
    saves: u64,
    violations: Vec<(String, String, J)>,
    samples: Vec<J>,
    outcomes: Vec<u64>,
    machinery: Vec<String>,
}

static FILE_COUNTER: AtomicU64 = AtomicU64::new(0);

fn check_history(d: &Driver, hist: &[u8], inc_ctx: &Context, inc_results: &[RunResult], agg: &mut Agg) {
    let n = hist.len();
    let lines: Vec<&str> = hist.iter().map(|a| d.alphabet[*a as usize].as_str()).collect();
    let o_full = full_obs(inc_ctx, &d.probes);
    let prints: Vec<String> = inc_results.iter().flat_map(|r| r.printed.clone()).collect();
    // a multi-statement input reports the value of its last expression statement, so the result
    // of a block of lines is the last value any of its lines produced
    let block_value = |from: usize, to: usize| -> String {
        for i in (from..=to).rev() {
            if inc_results[i].value().is_some() {
                return outcome_value(&inc_results[i]);
            }
        }
        "ok:-".to_string()
    };
    let last_outcome = outcome_value(inc_results.last().unwrap());
    let whole_outcome = block_value(0, n - 1);
    agg.histories += 1;
    agg.outcomes.push(hash64(&o_full));
    let hist_text: Vec<String> = lines.iter().map(|s| s.to_string()).collect();
    let mut viol = |kind: &str, what: String, agg: &mut Agg| {
        // recorded class: the result of a multi-line input is simplified when the whole input has
        // run, so a unit defined by a *later* line of the same input can appear in it
        let expr_pos = hist_text.iter().position(|l| l == "2 kg * 3 m");
        let later_unit = expr_pos.map(|p| hist_text[p + 1..].iter().any(|l| l.starts_with("unit zed2") || l.starts_with("unit alp2"))).unwrap_or(false);
        let key = if (kind == "batch" || kind == "save") && later_unit && (what.contains("zed2^1") || what.contains("alp2^1")) {
            "class:batch-result-simplified-with-later-unit".to_string()
        } else {
            format!("history:{}:{}|{}", d.name, hist_text.join("⏎"), kind)
        };
        agg.violations.push((
            key,
            format!("[{}] history {:?}: {}", d.name, hist_text, what),
            json!({"driver": d.name, "history": hist, "history_text": hist_text, "kind": kind}),
        ));
    };

    // (ii) every composition into contiguous blocks (mask bit i set = cut after input i)
    if n >= 2 {
        for mask in 0..(1u32 << (n - 1)) {
            if mask == (1u32 << (n - 1)) - 1 {
                continue; // all cuts = the incremental run itself
            }
            agg.compositions += 1;
            let mut ctx = d.base.clone();
            let mut block = String::new();
            let mut block_start = 0;
            let mut got_prints: Vec<String> = vec![];
            let mut ok = true;
            let mut last = None;
            for i in 0..n {
                if !block.is_empty() {
                    block.push('\n');
                }
                block.push_str(lines[i]);
                let cut = i == n - 1 || (mask >> i) & 1 == 1;
                if cut {
                    let r = run(&mut ctx, &block);
                    agg.executions += 1;
                    if !r.is_ok() {
                        viol(
                            "batch",
                            format!(
                                "inputs succeed one at a time, but the joined input {:?} fails: {}",
                                block,
                                r.err_string().unwrap_or_default()
                            ),
                            agg,
                        );
                        ok = false;
                        break;
                    }
                    got_prints.extend(r.printed.clone());
                    // result of the block = result of the input it ends with
                    let want = block_value(block_start, i);
                    let got = outcome_value(&r);
                    block_start = i + 1;
                    if want != got {
                        viol(
                            "batch",
                            format!(
                                "joined input {:?} yields {}, the same lines one at a time yield {}",
                                block, got, want
                            ),
                            agg,
                        );
                        ok = false;
                        break;
                    }
                    last = Some(got);
                    block.clear();
                }
            }
            if !ok {
                continue;
            }
            if got_prints != prints {
                viol(
                    "batch",
                    format!("printed output differs: batched (cuts {mask:b}) {got_prints:?} vs incremental {prints:?}"),
                    agg,
                );
                continue;
            }
            let _ = last;
            let o = full_obs(&ctx, &d.probes);
            if o != o_full {
                viol(
                    "batch",
                    format!("definitions differ after batching (cuts {mask:b}): {}", first_diff(&o_full, &o)),
                    agg,
                );
            }
        }
    }

    // (iii) save + replay through the real command runner: once with a failing line entered before
    // every good line, once with the good lines alone (so that repeated inputs are adjacent in the
    // recorded history)
    for with_failing in [true, false] {
        agg.saves += 1;
        let mut runner = CommandRunner::<()>::new().enable_save(SessionHistory::default());
        let mut ctx = d.base.clone();
        let mut expected_saved = String::new();
        for i in 0..n {
            // every failing line of the driver before each good line (they include inputs that define
            // the very names the good lines define, then fail at run time or in the type checker)
            if with_failing {
                for bad in &d.failing {
                    let rb = run(&mut ctx, bad);
                    agg.executions += 1;
                    runner.push_to_history(bad, if rb.is_ok() { Ok(()) } else { Err(()) });
                    if rb.is_ok() {
                        agg.machinery.push(format!("failing line {bad:?} unexpectedly succeeded"));
                        return;
                    }
                }
            }
            let r = run(&mut ctx, lines[i]);
            agg.executions += 1;
            runner.push_to_history(lines[i], if r.is_ok() { Ok(()) } else { Err(()) });
            if !r.is_ok() {
                viol(
                    "save",
                    format!(
                        "line {:?} succeeds in the plain session but fails when failing lines were entered in between: {}",
                        lines[i],
                        r.err_string().unwrap_or_default()
                    ),
                    agg,
                );
                return;
            }
            expected_saved.push_str(lines[i].trim());
            expected_saved.push('\n');
        }
        let path = format!(
            "{VERIF_ROOT}/work/c07_{}_{}.nbt",
            std::process::id(),
            FILE_COUNTER.fetch_add(1, Ordering::Relaxed)
        );
        let cmd = format!("save {path}");
        let res = runner.try_run_command(&cmd, &mut ctx, &mut ());
        match res {
            Ok(CommandControlFlow::Continue) => {}
            other => {
                agg.machinery.push(format!("save command did not run: {:?}", other.map(|_| ()).map_err(|e| format!("{e:?}"))));
                return;
            }
        }
        let saved = std::fs::read_to_string(&path).unwrap_or_default();
        let _ = std::fs::remove_file(&path);
        if saved != expected_saved {
            viol(
                "save",
                format!("saved file is {saved:?}, expected the successful lines {expected_saved:?}"),
                agg,
            );
            return;
        }
        // replay line by line
        let mut c1 = d.base.clone();
        let mut p1 = vec![];
        let mut last1 = String::new();
        for l in saved.lines() {
            let r = run(&mut c1, l);
            agg.executions += 1;
            if !r.is_ok() {
                viol("save", format!("replaying saved line {l:?} fails: {}", r.err_string().unwrap_or_default()), agg);
                return;
            }
            p1.extend(r.printed.clone());
            last1 = outcome_value(&r);
        }
        if p1 != prints || last1 != last_outcome {
            viol("save", format!("line-by-line replay of the saved file prints {p1:?} / yields {last1}; the session printed {prints:?} / yielded {last_outcome}"), agg);
            return;
        }
        let o1 = full_obs(&c1, &d.probes);
        if o1 != o_full {
            viol("save", format!("line-by-line replay of the saved file gives other definitions: {}", first_diff(&o_full, &o1)), agg);
            return;
        }
        // replay as one input (like `numbat file.nbt`)
        let mut c2 = d.base.clone();
        let r = run(&mut c2, &saved);
        agg.executions += 1;
        if !r.is_ok() {
            viol("save", format!("replaying the saved file as one input fails: {}", r.err_string().unwrap_or_default()), agg);
            return;
        }
        if r.printed != prints || outcome_value(&r) != whole_outcome {
            viol("save", format!("whole-file replay prints {:?} / yields {}; the session printed {prints:?} / yielded {whole_outcome}", r.printed, outcome_value(&r)), agg);
            return;
        }
        let o2 = full_obs(&c2, &d.probes);
        if o2 != o_full {
            viol("save", format!("whole-file replay gives other definitions: {}", first_diff(&o_full, &o2)), agg);
        }
    }

    // (iv) fork before the last input (forks at earlier prefixes were checked when those
    // prefixes + their next input were the history)
    {
        agg.forks += 1;
        let mut orig = d.base.clone();
        for l in &lines[..n - 1] {
            let _ = run(&mut orig, l);
            agg.executions += 1;
        }
        let o0 = full_obs(&orig, &d.probes);
        let mut fork = orig.clone();
        let fork2 = orig.clone();
        let rf = run(&mut fork, lines[n - 1]);
        if full_obs(&orig, &d.probes) != o0 {
            viol("fork", format!("running {:?} on a copy changed the original session: {}", lines[n - 1], first_diff(&o0, &full_obs(&orig, &d.probes))), agg);
            return;
        }
        let ro = run(&mut orig, lines[n - 1]);
        agg.executions += 2;
        if outcome_text(&rf) != outcome_text(&ro) {
            viol("fork", format!("{:?} yields {} on the copy but {} on the original", lines[n - 1], outcome_text(&rf), outcome_text(&ro)), agg);
            return;
        }
        let (of, oo) = (full_obs(&fork, &d.probes), full_obs(&orig, &d.probes));
        if of != oo {
            viol("fork", format!("copy and original differ after the same input: {}", first_diff(&oo, &of)), agg);
            return;
        }
        if oo != o_full {
            viol("fork", format!("replayed session differs from the incremental one: {}", first_diff(&o_full, &oo)), agg);
            return;
        }
        let o2 = full_obs(&fork2, &d.probes);
        if o2 != o0 {
            viol("fork", format!("an untouched copy changed while the original ran {:?}: {}", lines[n - 1], first_diff(&o0, &o2)), agg);
        }
    }
    if agg.samples.len() < 3 && n >= 3 && hist[0] as usize % 5 == 3 {
        agg.samples.push(json!({"driver": d.name, "history": hist_text}));
    }
}

fn outcome_value(r: &RunResult) -> String {
    let mut s = r.fingerprint();
    if let Some(v) = r.value() {
        s.push_str(&format!(" shown={}", v.pretty_print()));
    }
    s
}

fn dfs(d: &Driver, ctx: &Context, hist: &mut Vec<u8>, results: &mut Vec<RunResult>, depth: usize, agg: &mut Agg) {
    if !hist.is_empty() {
        check_history(d, hist, ctx, results, agg);
    }
    if hist.len() == depth {
        return;
    }
    for ai in 0..d.alphabet.len() {
        let mut c2 = ctx.clone();
        let r = run(&mut c2, &d.alphabet[ai]);
        agg.executions += 1;
        if !r.is_ok() {
            continue;
        }
        hist.push(ai as u8);
        results.push(r);
        dfs(d, &c2, hist, results, depth, agg);
        hist.pop();
        results.pop();
    }
}

pub fn explore(rep: &mut Report, d: &Driver, depth: usize) {
    let _ = std::fs::create_dir_all(format!("{VERIF_ROOT}/work"));
    // parallel over the first two inputs
    let na = d.alphabet.len();
    let roots: Vec<(usize, usize)> = (0..na).flat_map(|a| (0..na).map(move |b| (a, b))).collect();
    let aggs: Vec<Agg> = par_map(
        roots.len() + na,
        || (),
        |_, i| {
            let mut agg = Agg {
                histories: 0,
                executions: 0,
                compositions: 0,
                forks: 0,
                saves: 0,
                violations: vec![],
                samples: vec![],
                outcomes: vec![],
                machinery: vec![],
            };
            if i >= roots.len() {
                // the length-1 histories
                let a = i - roots.len();
                let mut c = d.base.clone();
                let r = run(&mut c, &d.alphabet[a]);
                if r.is_ok() {
                    check_history(d, &[a as u8], &c, &[r], &mut agg);
                }
                return agg;
            }
            if depth < 2 {
                return agg;
            }
            let (a, b) = roots[i];
            let mut c = d.base.clone();
            let r1 = run(&mut c, &d.alphabet[a]);
            if !r1.is_ok() {
                return agg;
            }
            let r2 = run(&mut c, &d.alphabet[b]);
            if !r2.is_ok() {
                return agg;
            }
            let mut hist = vec![a as u8, b as u8];
            let mut results = vec![r1, r2];
            dfs(d, &c, &mut hist, &mut results, depth, &mut agg);
            agg
        },
    );
    let (mut h, mut e, mut c, mut f, mut s) = (0, 0, 0, 0, 0);
    for a in aggs {
        h += a.histories;
        e += a.executions;
        c += a.compositions;
        f += a.forks;
        s += a.saves;
        for (k, w, j) in a.violations {
            rep.violation(k, w, j);
        }
        for x in a.samples {
            rep.sample(x);
        }
        for o in a.outcomes {
            rep.outcomes.insert(o);
        }
        for m in a.machinery {
            rep.machinery_error(m);
        }
    }
    rep.states += h;
    rep.transitions += e;
    rep.validated += c + f + 2 * s;
    rep.evaluations += e;
    rep.nontrivial_extra += c;
    rep.set(
        &format!("driver_{}", d.name),
        json!({"alphabet": d.alphabet.len(), "max_history_length": depth, "all_successful_histories": h,
               "session_executions": e, "block_compositions_compared": c, "forks_checked": f, "save_replays": s}),
    );
}

pub fn check(rep: &mut Report) {
    rep.rule = "every history up to length n over the input alphabet whose inputs all succeed one at a time (depth-first on real Contexts); per history: all 2^(n-1) block compositions, real `save` + replay (line by line, whole file) with failing lines interleaved, fork before the last input; states = all-successful histories, transitions = interpreter executions; non-trivial = block compositions compared".into();
    rep.assumptions = vec![
        "sessions are compared on the full observation (names, raw values, signatures, units, dimensions, modules, probe outcomes), printed output and results".into(),
        "inputs are single lines, as the REPL and the `save` command produce them".into(),
    ];
    let t = driver_tiny();
    let p = driver_prelude();
    match rep.tier {
        Tier::Quick => {
            explore(rep, &t, 3);
            explore(rep, &p, 3);
        }
        Tier::Thorough => {
            explore(rep, &t, 4);
            explore(rep, &p, 3);
        }
    }
}

pub fn replay(case: &J) -> i32 {
    let d = if case["driver"] == "prelude" {
        driver_prelude()
    } else {
        driver_tiny()
    };
    let hist: Vec<u8> = case["history"]
        .as_array()
        .map(|a| a.iter().map(|x| x.as_u64().unwrap() as u8).collect())
        .unwrap_or_default();
    let mut ctx = d.base.clone();
    let mut results = vec![];
    for h in &hist {
        println!(">>> {}", d.alphabet[*h as usize]);
        let r = run(&mut ctx, &d.alphabet[*h as usize]);
        println!("    {}", outcome_text(&r));
        results.push(r);
    }
    let mut agg = Agg {
        histories: 0,
        executions: 0,
        compositions: 0,
        forks: 0,
        saves: 0,
        violations: vec![],
        samples: vec![],
        outcomes: vec![],
        machinery: vec![],
    };
    check_history(&d, &hist, &ctx, &results, &mut agg);
    if agg.violations.is_empty() {
        println!("no violation on this tree");
        0
    } else {
        for (_, w, _) in &agg.violations {
            println!("VIOLATION reproduced: {w}");
        }
        1
    }
}
