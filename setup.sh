#!/bin/bash
# Builds the verification harness (and, through the path dependency, numbat with the verif-hooks
# feature) from files on disk only.
set -eu
cd /verif/harness
export CARGO_NET_OFFLINE=true
mkdir -p /verif/work /verif/evidence /verif/replays
cargo build --release --offline
CARGO_PROFILE_DEV_OPT_LEVEL=2 CARGO_PROFILE_DEV_DEBUG=0 CARGO_TARGET_DIR=/verif/target/cli cargo build --offline -p numbat-cli --manifest-path /repo/Cargo.toml
echo "setup ok"
