use crate::common::*;
use std::time::Instant;
pub fn check(rep: &mut Report) {
    let units_only = {
        let mut c = fresh_builtin_ctx();
        for m in ["units::si", "units::imperial", "units::us_customary", "units::misc", "units::astronomical", "units::bit", "units::cgs", "units::fff", "units::hartree", "units::humorous", "units::nautical", "units::partsperx", "units::placeholder", "units::planck", "units::stoney", "units::time", "units::currencies", "units::mixed"] {
            let r = run(&mut c, &format!("use {m}"));
            if !r.is_ok() { println!("{m}: {:?}", r.err_string()); }
        }
        c
    };
    for (name, ctx) in [("all", all_ctx()), ("prelude", prelude_ctx()), ("units_only", units_only)] {
        let t = Instant::now();
        for _ in 0..200 { let _c = ctx.clone(); }
        let clone_us = t.elapsed().as_micros() as f64 / 200.0;
        let mut c = ctx.clone();
        let t = Instant::now();
        for i in 0..200 { let _ = run(&mut c, &format!("(2 * metre) * ({i} * inch)")); }
        let interp_us = t.elapsed().as_micros() as f64 / 200.0;
        let mut c = ctx.clone();
        let t = Instant::now();
        for i in 0..200 { let _ = run(&mut c, &format!("let zz{} = (2 * metre) * ({i} * inch)", i % 3)); }
        let let_us = t.elapsed().as_micros() as f64 / 200.0;
        println!("{name}: clone {clone_us:.0} us, interpret expr {interp_us:.0} us, let {let_us:.0} us, units {}", ctx.unit_names().len());
    }
    rep.states = 1; rep.transitions = 1;
}
pub fn replay(_c: &serde_json::Value) -> i32 { 2 }
