//! C21 — assertions decide exactly their documented predicate, and a failing one aborts its input.

use crate::common::*;
use crate::units::Evaluator;
use numbat::{NumbatError, RuntimeErrorKind};
use serde_json::{Value as J, json};
use std::collections::BTreeMap;

const DIMS: [(&str, [&str; 3]); 3] = [
    ("Length", ["m", "cm", "inch"]),
    ("Time", ["s", "min", "h"]),
    ("Scalar", ["1", "percent", "dozen"]),
];
const MAGS: [&str; 13] = ["1", "1.0000000000000002", "2", "NaN", "0", "-1", "100", "2.54", "0.1", "inf", "-inf", "1e308", "1e-310"];
const EPS_MAGS: [&str; 8] = ["0", "1e-9", "0.5", "1", "-1", "NaN", "inf", "100"];

fn q(mag: &str, unit: &str) -> String {
    if unit == "1" {
        if mag.starts_with('-') { format!("({mag})") } else { mag.to_string() }
    } else if mag.starts_with('-') {
        format!("(({mag}) * {unit})")
    } else {
        format!("({mag} * {unit})")
    }
}

fn program(assertion: &str) -> String {
    format!("print(\"before\")\n{assertion}\nprint(\"after\")\nlet zz_after = 1")
}

#[derive(Debug)]
enum Kind {
    Assert,
    Eq2,
    Eq3,
}

struct Case {
    assertion: String,
    kind: Kind,
    /// None = the reference could not be computed (skip, counted)
    expect_pass: Option<bool>,
    nontrivial: bool,
}

fn raw_f64(ev: &mut Evaluator, expr: &str) -> Option<f64> {
    ev.raw(expr).as_ref().and_then(quantity_parts).map(|p| p.0)
}

fn judge(ev: &mut Evaluator, c: &Case) -> Result<String, String> {
    ev.reset();
    let r = ev.eval(&program(&c.assertion));
    if let Some(p) = r.panic() {
        return Err(format!("PANIC {} at {}", p.message, p.site()));
    }
    let after_defined = {
        let probe = ev.eval("zz_after");
        probe.is_ok()
    };
    ev.reset();
    let Some(expect) = c.expect_pass else {
        return Ok("unspecified".into());
    };
    if expect {
        if !r.is_ok() {
            return Err(format!("predicate holds but the assertion failed: {}", r.err_string().unwrap_or_default()));
        }
        if r.printed != vec!["before".to_string(), "after".to_string()] || !after_defined {
            return Err(format!("assertion passed but the rest of the input did not run normally (printed {:?}, zz_after defined: {after_defined})", r.printed));
        }
        Ok("pass".into())
    } else {
        match r.err() {
            None => Err(format!("predicate does not hold but the assertion succeeded (printed {:?})", r.printed)),
            Some(NumbatError::RuntimeError(e)) => {
                let kind_ok = match (&c.kind, &e.kind) {
                    (Kind::Assert, RuntimeErrorKind::AssertFailed(_)) => true,
                    (Kind::Eq2, RuntimeErrorKind::AssertEq2Failed(_)) => true,
                    (Kind::Eq3, RuntimeErrorKind::AssertEq3Failed(_)) => true,
                    _ => false,
                };
                if !kind_ok {
                    return Err(format!("failing assertion reported as `{}` instead of the matching assertion error", e.kind));
                }
                if r.printed.iter().any(|p| p == "after") || after_defined {
                    return Err(format!("a statement after the failing assertion ran (printed {:?}, zz_after defined: {after_defined})", r.printed));
                }
                Ok("fail".into())
            }
            Some(other) => Err(format!("failing assertion reported as a {} error: {other}", error_stage(other))),
        }
    }
}

pub fn check(rep: &mut Report) {
    let base = prelude_ctx();
    let mut ev0 = Evaluator::new(base.clone());
    // reference tables: value of every (mag, unit) converted into every unit of its dimension
    let mut conv: BTreeMap<(String, String), Option<f64>> = BTreeMap::new(); // (value expr, target unit) -> raw
    let mut cases: Vec<Case> = vec![];
    for (_dim, units) in DIMS {
        let vals: Vec<(String, &str)> = units
            .iter()
            .flat_map(|u| MAGS.iter().map(move |m| (q(m, u), *u)))
            .collect();
        for (v, _) in &vals {
            for u in units {
                let e = format!("({v}) -> {u}");
                let x = raw_f64(&mut ev0, &e);
                conv.insert((v.clone(), u.to_string()), x);
            }
        }
        // assert_eq/2: every ordered pair of values of this dimension
        for (a, _ua) in &vals {
            for (b, ub) in &vals {
                let xa = conv[&(a.clone(), ub.to_string())];
                let xb = conv[&(b.clone(), ub.to_string())];
                let expect = match (xa, xb) {
                    (Some(x), Some(y)) => Some(x == y),
                    _ => None,
                };
                cases.push(Case {
                    assertion: format!("assert_eq({a}, {b})"),
                    kind: Kind::Eq2,
                    expect_pass: expect,
                    nontrivial: a != b,
                });
            }
        }
        // assert_eq/3: pairs x eps; to keep the product bounded the value axis uses a sub-alphabet
        let sub: Vec<&(String, &str)> = vals
            .iter()
            .filter(|(v, _)| !(v.contains("2.54") || v.contains("100 ") || v.starts_with("100")))
            .collect();
        for ue in units {
            for em in EPS_MAGS {
                let eps = q(em, ue);
                let e: f64 = em.parse().unwrap();
                for (a, _) in &sub {
                    for (b, _) in &sub {
                        let xa = conv[&(a.clone(), ue.to_string())];
                        let xb = conv[&(b.clone(), ue.to_string())];
                        let expect = match (xa, xb) {
                            (Some(x), Some(y)) => Some((x - y).abs() <= e),
                            _ => None,
                        };
                        cases.push(Case {
                            assertion: format!("assert_eq({a}, {b}, {eps})"),
                            kind: Kind::Eq3,
                            expect_pass: expect,
                            nontrivial: true,
                        });
                    }
                }
            }
        }
    }
    // assert(c)
    for (c, v) in [
        ("true", true),
        ("false", false),
        ("1 m < 2 m", true),
        ("2 m < 1 m", false),
        ("1 == 1 && 2 == 3", false),
        ("1 == 1 || 2 == 3", true),
        ("!(1 == 1)", false),
        ("NaN == NaN", false),
        ("1 m == 100 cm", true),
        ("\"a\" == \"a\"", true),
    ] {
        cases.push(Case { assertion: format!("assert({c})"), kind: Kind::Assert, expect_pass: Some(v), nontrivial: true });
    }
    // assert_eq/2 on non-quantities: the predicate is numbat's own `==` (evaluated separately)
    let non_q = [
        "true", "false", "\"a\"", "\"b\"", "\"\"", "[1, 2]", "[1, 3]", "[1, 2, 3]", "[1 m, 2 cm]", "[100 cm, 0.02 m]", "[1 m]", "[true]", "[false]", "[\"a\"]", "[[1], [2]]", "[[1], [3]]",
    ];
    for a in non_q {
        for b in non_q {
            let r = ev0.eval(&format!("{a} == {b}"));
            ev0.reset();
            let expect = match r.value() {
                Some(numbat::value::Value::Boolean(x)) => Some(*x),
                _ => continue, // ill-typed pair
            };
            cases.push(Case { assertion: format!("assert_eq({a}, {b})"), kind: Kind::Eq2, expect_pass: expect, nontrivial: a != b });
        }
    }
    let n = cases.len();
    let outs: Vec<Result<String, String>> = par_map(n, || Evaluator::new(base.clone()), |ev, i| judge(ev, &cases[i]));
    rep.states = n as u64;
    let (mut pass, mut fail, mut unspec) = (0u64, 0u64, 0u64);
    for (i, o) in outs.into_iter().enumerate() {
        rep.transitions += 2;
        rep.evaluations += 2;
        match o {
            Ok(s) => {
                match s.as_str() {
                    "pass" => pass += 1,
                    "fail" => fail += 1,
                    _ => unspec += 1,
                }
                if s != "unspecified" {
                    rep.validated += 1;
                }
                rep.outcome(&s);
                if cases[i].nontrivial {
                    rep.nontrivial_case(&cases[i].assertion);
                }
                if rep.samples.len() < 8 && i % 4001 == 5 {
                    rep.sample(json!({"assertion": cases[i].assertion, "expected": cases[i].expect_pass, "outcome": s}));
                }
            }
            Err(e) => {
                if e.starts_with("PANIC") {
                    let site = e.split(" at ").last().unwrap_or("").to_string();
                    rep.violation(format!("callsite:{site}"), format!("`{}`: {e}", cases[i].assertion), json!({"assertion": cases[i].assertion}));
                } else {
                    rep.violation(
                        format!("input:{}", cases[i].assertion),
                        format!("`{}` (predicate {:?}): {e}", cases[i].assertion, cases[i].expect_pass),
                        json!({"assertion": cases[i].assertion, "expect_pass": cases[i].expect_pass, "kind": format!("{:?}", cases[i].kind)}),
                    );
                }
            }
        }
    }
    rep.set("assertions_expected_to_pass", json!(pass));
    rep.set("assertions_expected_to_fail", json!(fail));
    rep.set("unspecified_reference", json!(unspec));
    if pass == 0 || fail == 0 {
        rep.machinery_error("vacuous: all assertions had the same expected outcome");
    }
    rep.rule = "value alphabet (3 dimensions x 3 units x 13 magnitudes incl. NaN, 0, a 1-ulp neighbour, both infinities, a value that overflows in the smaller units and a subnormal) squared for assert_eq/2; a sub-alphabet squared x (3 units x 8 eps magnitudes incl. 0, negative, NaN, inf) for assert_eq/3; booleans for assert; booleans/strings/lists squared for assert_eq/2; each assertion embedded between marker statements; predicate computed from separately evaluated conversions with the comparison done by the harness; non-trivial = cases with two different operands or a tolerance".into();
    rep.assumptions = vec![
        "the conversion `a -> unit` itself is C04's subject and is taken from the interpreter; the comparison |a-b| <= eps and a == b is the harness's f64 arithmetic".into(),
        "for non-quantities the predicate is the interpreter's own `==`, evaluated separately".into(),
    ];
}

pub fn replay(case: &J) -> i32 {
    let mut ev = Evaluator::new(prelude_ctx());
    let a = case["assertion"].as_str().unwrap_or("");
    let r = ev.eval(&program(a));
    println!("{}\n => {} printed {:?}", program(a), r.fingerprint(), r.printed);
    println!("expected to pass: {}", case["expect_pass"]);
    2
}
