//! C19 — date and time arithmetic is consistent.

use crate::common::*;
use crate::units::*;
use numbat::value::Value;
use numbat::{NumbatError, RuntimeErrorKind};
use serde_json::{Value as J, json};

pub const INSTANTS: [&str; 34] = [
    "1970-01-01 00:00:00 UTC",
    "1969-12-31 23:59:59.999999999 UTC",
    "2000-02-29 12:00:00 UTC",
    "2024-02-29 23:59:59.999999999 UTC",
    "1900-03-01 00:00:00 UTC",
    "2100-02-28 23:59:59 UTC",
    "0001-01-01 00:00:00 UTC",
    "0001-01-02 00:00:01 UTC",
    "9999-12-30 00:00:00 UTC",
    "9999-06-01 12:34:56 UTC",
    "-009999-01-03T00:00:00+00:00[UTC]",
    "-000001-06-01T00:00:00+00:00[UTC]",
    "2020-01-01 00:00:00.123456789 UTC",
    "2020-01-01 00:00:00.5 UTC",
    "2020-01-01 00:00:00.000000001 UTC",
    // DST changes
    "2024-03-10 01:59:59 America/New_York",
    "2024-03-10 03:00:00 America/New_York",
    "2024-11-03 01:30:00 America/New_York",
    "2024-11-03 00:59:59 America/New_York",
    "2024-03-31 01:59:59 Europe/Berlin",
    "2024-03-31 03:00:01 Europe/Berlin",
    "2024-10-27 02:30:00 Europe/Berlin",
    "2024-10-27 03:00:00 Europe/Berlin",
    "2024-04-07 01:45:00 Australia/Lord_Howe",
    "2024-10-06 01:59:59 Australia/Lord_Howe",
    "2011-12-29 23:59:59 Pacific/Apia",
    "2011-12-31 00:00:01 Pacific/Apia",
    "2024-06-15 12:00:00 Asia/Kathmandu",
    "2024-06-15 12:00:00 Asia/Kolkata",
    "1883-11-18 12:00:00 America/New_York",
    "2038-01-19 03:14:07 UTC",
    "2038-01-19 03:14:08 UTC",
    "2024-12-31 23:59:60 UTC",
    "2016-12-31 23:59:59.999 +0530",
];

/// DST zones whose transitions are enumerated in the thorough tier (whole-hour, half-hour,
/// two-hour and negative DST, a date-line change)
const DST_ZONES: [&str; 12] = [
    "America/New_York", "Europe/Berlin", "Australia/Lord_Howe", "Pacific/Chatham", "Antarctica/Troll", "Europe/Dublin", "America/Havana", "Africa/Casablanca", "Australia/Sydney", "America/Santiago", "Asia/Tehran", "Pacific/Apia",
];

/// the fixed alphabet, plus (thorough) every offset of a fixed list around every DST transition
/// of 2011–2012 and 2023–2024 in the DST zones, written as UTC instants
pub fn instants(thorough: bool) -> Vec<&'static str> {
    let mut v: Vec<&'static str> = INSTANTS.to_vec();
    if !thorough {
        return v;
    }
    let offsets_ms: [i64; 9] = [-3_600_500, -1_800_000, -1_000, -1, 0, 1_000, 1_799_750, 3_599_000, 3_601_000];
    let mut seen = std::collections::BTreeSet::new();
    for zone in DST_ZONES {
        let Ok(tz) = jiff::tz::db().get(zone) else { continue };
        for (from, to) in [("2011-01-01T00:00:00Z", "2013-01-01T00:00:00Z"), ("2023-01-01T00:00:00Z", "2025-01-01T00:00:00Z")] {
            let start: jiff::Timestamp = from.parse().unwrap();
            let end: jiff::Timestamp = to.parse().unwrap();
            for tr in tz.following(start) {
                if tr.timestamp() >= end {
                    break;
                }
                for off in offsets_ms {
                    let ts = tr.timestamp().as_millisecond() + off;
                    if seen.insert(ts) {
                        let t = jiff::Timestamp::from_millisecond(ts).unwrap();
                        let text = t.strftime("%Y-%m-%d %H:%M:%S%.f UTC").to_string();
                        v.push(Box::leak(text.into_boxed_str()));
                    }
                }
            }
        }
    }
    v
}

const MAGS: [&str; 11] = ["1", "-1", "0.5", "-0.5", "1.000000001", "1e6", "-1e6", "1e100", "1e-9", "0.1234567891", "(1-1)"];

fn ns_of(v: &Value) -> Option<i128> {
    match v {
        Value::DateTime(z) => Some(z.timestamp().as_nanosecond()),
        _ => None,
    }
}

fn f64_of(v: &Value) -> Option<f64> {
    quantity_parts(v).map(|p| p.0)
}

const TS_MIN_NS: i128 = -377705023201 * 1_000_000_000;
const TS_MAX_NS: i128 = 253402207200 * 1_000_000_000 + 999_999_999;
const DAY_NS: i128 = 86_400 * 1_000_000_000;

struct Case {
    t: &'static str,
    d: String,
    d_s: f64,
}

fn is_range_error(e: &NumbatError) -> bool {
    matches!(
        e,
        NumbatError::RuntimeError(r) if matches!(r.kind, RuntimeErrorKind::DateTimeOutOfRange | RuntimeErrorKind::DurationOutOfRange)
    )
}

fn judge_arith(ev: &mut Evaluator, c: &Case, t_ns: i128) -> Result<String, String> {
    ev.reset();
    let prog = format!("let t0 = datetime(\"{}\")\nlet t1 = t0 + ({})", c.t, c.d);
    let r = ev.eval(&prog);
    if let Some(p) = r.panic() {
        return Err(format!("PANIC {} at {}", p.message, p.site()));
    }
    let d_ns_f = c.d_s * 1e9;
    // resolution of the duration as an f64 number of seconds, in ns, plus 1 ns rounding
    let tol_ns: f64 = 1.0 + 4.0 * ulp(c.d_s.abs().max(1e-9)) * 1e9;
    let expected_ns = t_ns as f64 + d_ns_f;
    let clearly_in = d_ns_f.abs() < 6.0e20 && expected_ns > (TS_MIN_NS + 2 * DAY_NS) as f64 && expected_ns < (TS_MAX_NS - 2 * DAY_NS) as f64;
    let clearly_out = !d_ns_f.is_finite() || expected_ns < (TS_MIN_NS - 2 * DAY_NS) as f64 || expected_ns > (TS_MAX_NS + 2 * DAY_NS) as f64;
    if !r.is_ok() {
        let e = r.err().unwrap();
        if !is_range_error(e) {
            return Err(format!("t + d fails with `{e}` (not a range error)"));
        }
        if clearly_in {
            return Err(format!("t + d reports `{e}` although the result {:.0} ns lies well inside the supported range", expected_ns));
        }
        return Ok("range-error".into());
    }
    if clearly_out {
        let t1 = ev.ctx().verif_raw_global("t1");
        return Err(format!(
            "t + d is out of the supported range (expected {:.3e} ns since the epoch) but produced {:?}",
            expected_ns,
            t1.map(|v| v.to_string())
        ));
    }
    let t1 = ev.ctx().verif_raw_global("t1").and_then(|v| ns_of(&v)).ok_or("t1 is not a datetime")?;
    // reference timeline
    let got_delta = (t1 - t_ns) as f64;
    if (got_delta - d_ns_f).abs() > tol_ns {
        return Err(format!("t + d moved the instant by {got_delta:.0} ns, the duration is {d_ns_f:.0} ns"));
    }
    // (t + d) - t == d   and   (t + d) - d == t
    let r2 = ev.eval(&format!("let diff = t1 - t0\nlet back = t1 - ({})", c.d));
    if let Some(p) = r2.panic() {
        return Err(format!("PANIC {} at {}", p.message, p.site()));
    }
    if !r2.is_ok() {
        let e = r2.err().unwrap();
        // going back can leave the range only if t itself is at the edge: never for our instants
        return Err(format!("(t + d) - t / (t + d) - d fails: {e}"));
    }
    let diff = ev.ctx().verif_raw_global("diff").ok_or("no diff")?;
    let (diff_x, diff_f) = quantity_parts(&diff).ok_or("diff is not a quantity")?;
    if diff_f != vec![("second".to_string(), "Metric(0)".to_string(), 1, 1)] {
        return Err(format!("(t + d) - t has unit [{}], expected seconds", factors_string(&diff_f)));
    }
    if (diff_x * 1e9 - d_ns_f).abs() > tol_ns + 4.0 * ulp(diff_x.abs()) * 1e9 {
        return Err(format!("(t + d) - t = {diff_x:e} s, d = {:e} s", c.d_s));
    }
    let back = ev.ctx().verif_raw_global("back").and_then(|v| ns_of(&v)).ok_or("back is not a datetime")?;
    if ((back - t_ns) as f64).abs() > 2.0 * tol_ns {
        return Err(format!("(t + d) - d differs from t by {} ns", back - t_ns));
    }
    Ok("ok".into())
}

pub fn check(rep: &mut Report) {
    let base = prelude_ctx();
    let defs = match UnitDefs::build(&base) {
        Ok(d) => d,
        Err(e) => {
            rep.machinery_error(e);
            return;
        }
    };
    let all_instants = instants(rep.tier == Tier::Thorough);
    let inst = &all_instants;
    let mut ev = Evaluator::new(base.clone());
    // instants: must parse; reference ns from the parsed value itself (jiff), cross-checked for
    // the UTC ones against a proleptic Gregorian day count
    let mut t_ns: Vec<i128> = vec![];
    for t in inst.iter().copied() {
        ev.reset();
        let r = ev.eval(&format!("let t0 = datetime(\"{t}\")"));
        let v = ev.ctx().verif_raw_global("t0");
        match (r.is_ok(), v.as_ref().and_then(ns_of)) {
            (true, Some(ns)) => {
                if let Some(want) = civil_utc_ns(t) {
                    if want != ns {
                        rep.violation(
                            format!("instant:{t}"),
                            format!("datetime(\"{t}\") is {ns} ns since the epoch, the proleptic Gregorian calendar gives {want}"),
                            json!({"t": t}),
                        );
                    }
                }
                t_ns.push(ns)
            }
            _ => {
                rep.machinery_error(format!("instant {t:?} does not parse: {:?}", r.err_string()));
                return;
            }
        }
    }
    // durations: every unit of dimension Time x magnitudes
    let time_dim = defs.units["second"].dim.clone();
    let time_units: Vec<&UnitInfo> = defs.units.values().filter(|u| u.dim == time_dim).collect();
    let mut cases: Vec<(usize, Case)> = vec![];
    for (ti, t) in inst.iter().enumerate() {
        for u in &time_units {
            for m in MAGS {
                let d = if m.starts_with('-') { format!("({m}) * {}", u.name) } else { format!("{m} * {}", u.name) };
                let d_s = if m == "(1-1)" { 0.0 } else { m.parse::<f64>().unwrap() * u.base_factor };
                cases.push((ti, Case { t, d, d_s }));
            }
        }
    }
    let n = cases.len();
    let outs: Vec<Result<String, String>> = par_map(n, || Evaluator::new(base.clone()), |ev, i| judge_arith(ev, &cases[i].1, t_ns[cases[i].0]));
    rep.states += n as u64;
    let mut range_errors = 0u64;
    for (i, o) in outs.into_iter().enumerate() {
        rep.transitions += 2;
        rep.evaluations += 2;
        let c = &cases[i].1;
        match o {
            Ok(s) => {
                rep.validated += 1;
                rep.outcome(&s);
                if s == "range-error" {
                    range_errors += 1;
                }
                rep.nontrivial_case(&format!("{}|{}", c.t, c.d));
                if i % 997 == 3 {
                    rep.sample(json!({"t": c.t, "d": c.d, "outcome": s}));
                }
            }
            Err(e) => {
                if e.starts_with("PANIC") {
                    let site = e.split(" at ").last().unwrap_or("").to_string();
                    rep.violation(format!("callsite:{site}"), format!("datetime(\"{}\") + {}: {e}", c.t, c.d), json!({"t": c.t, "d": c.d, "d_s": c.d_s}));
                } else {
                    rep.violation(format!("case:{}|{}", c.t, c.d), format!("t = datetime(\"{}\"), d = {}: {e}", c.t, c.d), json!({"t": c.t, "d": c.d, "d_s": c.d_s}));
                }
            }
        }
    }
    rep.set("instants", json!(inst.len()));
    rep.set("time_units", json!(time_units.len()));
    rep.set("duration_magnitudes", json!(MAGS.len()));
    rep.set("range_errors_observed", json!(range_errors));

    // time zones: every zone of the database x every instant
    let zones: Vec<String> = jiff::tz::db().available().map(|n| n.as_str().to_string()).collect();
    rep.set("time_zones", json!(zones.len()));
    let zstep = rep.tier.pick(1usize, 1usize);
    let zcases: Vec<(usize, &String)> = (0..inst.len()).flat_map(|ti| zones.iter().step_by(zstep).map(move |z| (ti, z))).collect();
    let zouts: Vec<Result<(), String>> = par_map(
        zcases.len(),
        || Evaluator::new(base.clone()),
        |ev, i| {
            let (ti, z) = zcases[i];
            ev.reset();
            let r = ev.eval(&format!("let tz0 = datetime(\"{}\") -> tz(\"{z}\")", inst[ti]));
            if let Some(p) = r.panic() {
                return Err(format!("PANIC {} at {}", p.message, p.site()));
            }
            if !r.is_ok() {
                return Err(format!("conversion fails: {}", r.err_string().unwrap_or_default()));
            }
            let v = ev.ctx().verif_raw_global("tz0").ok_or("no value")?;
            let ns = ns_of(&v).ok_or("not a datetime")?;
            if ns != t_ns[ti] {
                return Err(format!("the instant changed by {} ns", ns - t_ns[ti]));
            }
            match &v {
                Value::DateTime(zd) => {
                    if zd.time_zone().iana_name() != Some(z.as_str()) {
                        return Err(format!("result is in zone {:?}", zd.time_zone().iana_name()));
                    }
                }
                _ => {}
            }
            // full-precision formats read back as the same instant
            for f in ["%Y-%m-%d %H:%M:%S%.f %z", "%Y/%m/%d %H:%M:%S%.f %z"] {
                let r = ev.eval(&format!("let rt = datetime(format_datetime(\"{f}\", tz0))"));
                if !r.is_ok() {
                    // years outside 0..9999 cannot be written by %Y in a re-readable way
                    if inst[ti].starts_with('-') {
                        continue;
                    }
                    return Err(format!("datetime(format_datetime(\"{f}\", t)) fails: {}", r.err_string().unwrap_or_default()));
                }
                let back = ev.ctx().verif_raw_global("rt").and_then(|v| ns_of(&v)).ok_or("round trip is not a datetime")?;
                if back != t_ns[ti] {
                    return Err(format!("datetime(format_datetime(\"{f}\", t)) differs from t by {} ns", back - t_ns[ti]));
                }
            }
            Ok(())
        },
    );
    rep.states += zcases.len() as u64;
    for (i, o) in zouts.into_iter().enumerate() {
        rep.transitions += 3;
        rep.evaluations += 3;
        let (ti, z) = zcases[i];
        match o {
            Ok(()) => {
                rep.validated += 1;
                if i % 2003 == 0 {
                    rep.outcome(z);
                }
            }
            Err(e) => {
                if e.starts_with("PANIC") {
                    let site = e.split(" at ").last().unwrap_or("").to_string();
                    rep.violation(format!("callsite:{site}"), format!("datetime(\"{}\") -> tz(\"{z}\"): {e}", inst[ti]), json!({"t": inst[ti], "zone": z}));
                } else {
                    rep.violation(format!("zone:{}|{z}", inst[ti]), format!("datetime(\"{}\") -> tz(\"{z}\"): {e}", inst[ti]), json!({"t": inst[ti], "zone": z}));
                }
            }
        }
    }
    rep.rule = "instant alphabet (epoch, leap days, range edges, sub-second parts, both sides of DST changes in 5 zones; thorough: + 9 offsets around every DST transition of 2011-2012 and 2023-2024 in 12 zones) x every prelude unit of dimension Time x magnitude alphabet for the arithmetic laws; instant alphabet x every zone of the time-zone database for zone conversion and format/parse round trips; reference = integer nanoseconds since the epoch; non-trivial = (instant, duration) pairs".into();
    rep.assumptions = vec![
        "the instant denoted by a parsed datetime is read from the value itself (jiff timestamp); UTC instants are cross-checked against a proleptic Gregorian day count".into(),
        "tolerance: 1 ns rounding + the f64 resolution of the duration at its magnitude".into(),
        "results within 2 days of the range limits are not judged for range errors".into(),
    ];
}

/// ns since the epoch for "YYYY-MM-DD hh:mm:ss[.f] UTC" strings (None for other forms)
fn civil_utc_ns(t: &str) -> Option<i128> {
    let rest = t.strip_suffix(" UTC")?;
    let (date, time) = rest.split_once(' ')?;
    let mut dp = date.split('-');
    let y: i128 = dp.next()?.parse().ok()?;
    let m: i128 = dp.next()?.parse().ok()?;
    let d: i128 = dp.next()?.parse().ok()?;
    let mut tp = time.split(':');
    let hh: i128 = tp.next()?.parse().ok()?;
    let mm: i128 = tp.next()?.parse().ok()?;
    let ss = tp.next()?;
    let (s_int, frac) = match ss.split_once('.') {
        Some((a, b)) => (a, b),
        None => (ss, ""),
    };
    let s: i128 = s_int.parse().ok()?;
    if s == 60 {
        return None; // leap second spelling: unspecified
    }
    let mut f = frac.to_string();
    while f.len() < 9 {
        f.push('0');
    }
    let nanos: i128 = f[..9].parse().ok()?;
    // days from civil (Howard Hinnant)
    let yy = if m <= 2 { y - 1 } else { y };
    let era = if yy >= 0 { yy } else { yy - 399 } / 400;
    let yoe = yy - era * 400;
    let mp = (m + 9) % 12;
    let doy = (153 * mp + 2) / 5 + d - 1;
    let doe = yoe * 365 + yoe / 4 - yoe / 100 + doy;
    let days = era * 146097 + doe - 719468;
    Some(((days * 86400 + hh * 3600 + mm * 60 + s) * 1_000_000_000) + nanos)
}

pub fn replay(case: &J) -> i32 {
    let mut ev = Evaluator::new(prelude_ctx());
    let t = case["t"].as_str().unwrap_or("");
    if let Some(z) = case["zone"].as_str() {
        let r = ev.eval(&format!("datetime(\"{t}\") -> tz(\"{z}\")"));
        println!("{}", r.fingerprint());
        return 2;
    }
    let d = case["d"].as_str().unwrap_or("");
    let r = ev.eval(&format!("let t0 = datetime(\"{t}\")\nlet t1 = t0 + ({d})\nprint(t1)\nprint(t1 - t0)\nprint(t1 - ({d}))"));
    println!("{} {:?}", r.fingerprint(), r.printed);
    2
}
