#!/bin/bash
# notes/run_all.sh <quick|thorough> : run every registered check once, log exit codes and times
TIER=${1:-quick}
cd /verif
for id in C01 C02 C03 C04 C05 C06 C07 C08 C09 C10 C11 C12 C13 C14 C15 C16 C17 C18 C19 C20 C21 C22 C23 C24; do
  s=$(date +%s); ./check $id $TIER > /verif/work/all_${TIER}_$id.out 2>&1; rc=$?; e=$(date +%s)
  echo "$id $TIER rc=$rc $((e-s))s viol=$(grep -c '^VIOLATION' /verif/work/all_${TIER}_$id.out) known=$(grep -c '^KNOWN' /verif/work/all_${TIER}_$id.out) :: $(tail -1 /verif/work/all_${TIER}_$id.out | cut -c1-160)"
done
