//! C03 — quantity arithmetic agrees with dimensional analysis of the unit definitions.

use crate::common::*;
use crate::props::c13::ref_prefixes;
use crate::uexpr::*;
use crate::units::*;
use serde_json::{Value as J, json};

pub struct Case {
    pub src: String,
    pub expect: RefVal,
    pub nontrivial: bool,
}

pub const TOL: f64 = 1e-9;

/// Evaluate `src` in `ev`, compare the raw result (converted to base units by the implementation)
/// with the reference.
pub fn judge_case(ev: &mut Evaluator, defs: &UnitDefs, c: &Case) -> Result<String, String> {
    let r = ev.raw(&c.src);
    let Some(v) = r else {
        // find out why
        let rr = ev.eval(&c.src);
        ev.reset();
        return Err(match rr.panic() {
            Some(p) => format!("PANIC {} at {}", p.message, p.site()),
            None => format!("does not evaluate: {}", rr.err_string().unwrap_or_else(|| "not a quantity".into())),
        });
    };
    let Some((bv, bf)) = to_base_parts(&v) else {
        return Err("result is not a quantity".into());
    };
    let impl_dim = dim_from_factors(&bf);
    // dimension through the reference's own unit table as well
    let via_ref = defs.value_in_base(&v);
    if impl_dim != c.expect.dim {
        return Err(format!(
            "result has base units {} but dimensional analysis gives {}",
            dim_string(&impl_dim),
            dim_string(&c.expect.dim)
        ));
    }
    if let Some((_, d2)) = &via_ref {
        if d2 != &c.expect.dim {
            return Err(format!(
                "the result's unit {} has dimension {} but dimensional analysis gives {}",
                unit_text(&v).unwrap_or_default(),
                dim_string(d2),
                dim_string(&c.expect.dim)
            ));
        }
    }
    if c.expect.well_conditioned {
        let want = c.expect.v;
        let ok = |got: f64| -> bool {
            if want == 0.0 {
                got == 0.0
            } else if want.is_finite() {
                close(got, want, TOL)
            } else {
                got == want || (got.is_nan() && want.is_nan())
            }
        };
        if !ok(bv) {
            return Err(format!(
                "= {bv:e} in base units ({}), exact dimensional arithmetic gives {want:e}",
                dim_string(&impl_dim)
            ));
        }
        if let Some((v2, _)) = via_ref {
            if !ok(v2) {
                return Err(format!(
                    "= {} {} which is {v2:e} in base units by the unit definitions, expected {want:e}",
                    quantity_parts(&v).map(|p| p.0).unwrap_or(f64::NAN),
                    unit_text(&v).unwrap_or_default()
                ));
            }
        }
    }
    Ok(format!("{bv:e} {}", dim_string(&impl_dim)))
}

pub fn collision_leaves(defs: &UnitDefs, rich: bool) -> Vec<UExpr> {
    // one unit per code shortcut: base, derived with factor, derived of derived, inverse
    // dimension, compound, dimensionless kinds, non-SI base, binary-prefix unit
    let names: Vec<&str> = if rich {
        vec!["metre", "inch", "second", "hour", "gram", "hertz", "newton", "joule", "percent", "degree", "bit", "byte", "litre", "watt", "mile", "kelvin"]
    } else {
        vec!["metre", "inch", "second", "hour", "gram", "hertz", "newton", "percent", "bit"]
    };
    let mut v = vec![];
    for n in names {
        let Some(u) = defs.units.get(n) else { continue };
        let Some((alias, _, _)) = u.aliases.iter().find(|(_, _, long)| *long) else { continue };
        v.push(UExpr::leaf("2", None, alias, n));
        if u.metric {
            v.push(UExpr::leaf("0.5", Some(("kilo", Pfx::Metric(3))), alias, n));
            if rich {
                v.push(UExpr::leaf("-3", Some(("milli", Pfx::Metric(-3))), alias, n));
            }
        }
        if u.binary {
            v.push(UExpr::leaf("0.5", Some(("mebi", Pfx::Binary(20))), alias, n));
        }
    }
    v
}

pub fn depth1(leaves: &[UExpr]) -> Vec<UExpr> {
    let mut v = vec![];
    for a in leaves {
        for (n, d) in [(2, 1), (-1, 1), (1, 2), (3, 1)] {
            v.push(UExpr::Pow(Box::new(a.clone()), n, d));
        }
        for b in leaves {
            for op in ['+', '-', '*', '/'] {
                v.push(UExpr::Bin(op, Box::new(a.clone()), Box::new(b.clone())));
            }
        }
    }
    v
}

pub fn check(rep: &mut Report) {
    let base = all_ctx();
    let defs = match UnitDefs::build(&base) {
        Ok(d) => d,
        Err(e) => {
            rep.machinery_error(e);
            return;
        }
    };
    // sanity: reference dims == registry dims for every unit (two extractions of the same fact)
    for u in defs.units.values() {
        if u.dim != u.registry_dim {
            rep.violation(
                format!("unit:{}|registry-dim", u.name),
                format!(
                    "unit {}: base representation in the registry is {} but its definition chain gives {}",
                    u.name,
                    dim_string(&u.registry_dim),
                    dim_string(&u.dim)
                ),
                json!({"unit": u.name}),
            );
        }
    }
    let mut cases: Vec<Case> = vec![];
    // L1: every accepted identifier alone
    let prefixes = ref_prefixes();
    for u in defs.units.values() {
        for (alias, short, long) in &u.aliases {
            let mut add = |s: String, p: Option<Pfx>| {
                cases.push(Case {
                    src: format!("1 {s}"),
                    expect: RefVal {
                        v: p.map(|p| p.factor()).unwrap_or(1.0) * u.base_factor,
                        dim: u.dim.clone(),
                        well_conditioned: true,
                    },
                    nontrivial: p.is_some(),
                });
            };
            add(alias.clone(), None);
            for (pl, shorts, p) in &prefixes {
                let ok = match p {
                    Pfx::Metric(_) => u.metric,
                    Pfx::Binary(_) => u.binary,
                };
                if !ok {
                    continue;
                }
                if *long {
                    add(format!("{pl}{alias}"), Some(*p));
                }
                if *short {
                    for sp in shorts {
                        add(format!("{sp}{alias}"), Some(*p));
                    }
                }
            }
        }
    }
    let l1 = cases.len();
    // L2: every ordered pair of units under * and /, same-dimension pairs under + and -
    let mag_pairs: Vec<(&'static str, &'static str)> = match rep.tier {
        Tier::Quick => vec![("-2.5", "40.5")],
        Tier::Thorough => vec![("-2.5", "40.5"), ("1", "1"), ("0.1", "1e-7"), ("123456.789", "1e30"), ("0", "1")],
    };
    let names: Vec<&String> = defs.units.keys().collect();
    for a in &names {
        for b in &names {
            for (x, y) in &mag_pairs {
                let la = UExpr::leaf(x, None, a, a);
                let lb = UExpr::leaf(y, None, b, b);
                let mut ops = vec!['*', '/'];
                if defs.units[*a].dim == defs.units[*b].dim {
                    ops.extend(['+', '-']);
                }
                for op in ops {
                    let e = UExpr::Bin(op, Box::new(la.clone()), Box::new(lb.clone()));
                    if let Some(expect) = e.eval(&defs) {
                        cases.push(Case { src: e.render(), expect, nontrivial: a != b });
                    }
                }
            }
            // sums and differences of tiny magnitudes (far below 1 ulp of 1.0, far above the subnormals)
            if defs.units[*a].dim == defs.units[*b].dim {
                for (x, y) in [("3e-17", "1e-17"), ("5e-20", "2e-17")] {
                    for op in ['+', '-'] {
                        let e = UExpr::Bin(op, Box::new(UExpr::leaf(x, None, a, a)), Box::new(UExpr::leaf(y, None, b, b)));
                        if let Some(expect) = e.eval(&defs) {
                            cases.push(Case { src: e.render(), expect, nontrivial: true });
                        }
                    }
                }
            }
        }
    }
    let l2 = cases.len() - l1;
    // L3: expression trees over the collision alphabet
    let leaves = collision_leaves(&defs, rep.tier == Tier::Thorough);
    let d1 = depth1(&leaves);
    let mut trees: Vec<UExpr> = d1.clone();
    // depth 2: op(depth1, leaf), op(leaf, depth1), pow(depth1)
    let d2_leaves: Vec<UExpr> = leaves.iter().filter(|l| matches!(l, UExpr::Leaf { prefix: None, .. })).cloned().collect();
    for t in &d1 {
        for (n, d) in [(2, 1), (-1, 1), (1, 2)] {
            trees.push(UExpr::Pow(Box::new(t.clone()), n, d));
        }
        for l in &d2_leaves {
            for op in ['+', '-', '*', '/'] {
                trees.push(UExpr::Bin(op, Box::new(t.clone()), Box::new(l.clone())));
                trees.push(UExpr::Bin(op, Box::new(l.clone()), Box::new(t.clone())));
            }
        }
    }
    if rep.tier == Tier::Thorough {
        // depth 3 over a reduced alphabet: op(depth1, depth1)
        let small = depth1(&d2_leaves[..d2_leaves.len().min(6)]);
        for a in &small {
            for b in &small {
                for op in ['+', '-', '*', '/'] {
                    trees.push(UExpr::Bin(op, Box::new(a.clone()), Box::new(b.clone())));
                }
            }
        }
    }
    for t in trees {
        if let Some(expect) = t.eval(&defs) {
            if expect.v.is_finite() {
                cases.push(Case { src: t.render(), expect, nontrivial: true });
            }
        }
    }
    let l3 = cases.len() - l1 - l2;
    let n = cases.len();
    let outs: Vec<Result<String, String>> = par_map(
        n,
        || Evaluator::new(base.clone()),
        |ev, i| judge_case(ev, &defs, &cases[i]),
    );
    rep.states = n as u64;
    for (i, o) in outs.into_iter().enumerate() {
        rep.transitions += 1;
        rep.evaluations += 1;
        match o {
            Ok(s) => {
                rep.validated += 1;
                if cases[i].nontrivial {
                    rep.nontrivial_case(&cases[i].src);
                }
                if i % 1009 == 7 {
                    rep.outcome(&s);
                    if rep.samples.len() < 8 && i % 30270 == 7 {
                        rep.sample(json!({"expr": cases[i].src, "in base units": s}));
                    }
                }
            }
            Err(e) => {
                if e.starts_with("PANIC") {
                    let site = e.split(" at ").last().unwrap_or("").to_string();
                    rep.violation(
                        format!("callsite:{site}"),
                        format!("`{}`: {e}", cases[i].src),
                        json!({"expr": cases[i].src}),
                    );
                } else {
                    rep.violation(
                        format!("input:{}", cases[i].src),
                        format!("`{}` {e}", cases[i].src),
                        json!({"expr": cases[i].src, "expected_base_value": cases[i].expect.v, "expected_dim": dim_string(&cases[i].expect.dim)}),
                    );
                }
            }
        }
    }
    rep.set("units", json!(defs.units.len()));
    rep.set("L1_identifiers", json!(l1));
    rep.set("L2_pair_expressions", json!(l2));
    rep.set("L3_trees", json!(l3));
    rep.rule = "L1: every accepted (alias x prefix x spelling) identifier alone; L2: every ordered pair of units under * and / (all units^2) and + - (same-dimension pairs) x magnitude pairs, + - also with two pairs of tiny magnitudes (1e-17 … 1e-20); L3: every expression tree of depth <= 2 (thorough: + depth-3 op(depth1,depth1)) over a collision alphabet of units/prefixes with + - * / ^{2,-1,1/2,3}; each evaluated by the interpreter (raw value through the hook), converted to base units by the implementation and compared with a reference built from the units' direct definitions; non-trivial = cases involving a prefix, two different units or a tree".into();
    rep.assumptions = vec![
        "reference = UnitDefs (direct definitions read from the VM constants; own recursion, own prefix table, own power function), relative tolerance 1e-9".into(),
        "sums/differences that cancel to less than 1e-6 of their operands are compared in dimension only".into(),
        "magnitudes come from a fixed alphabet".into(),
    ];
}

pub fn replay(case: &J) -> i32 {
    let base = all_ctx();
    let mut ev = Evaluator::new(base);
    let src = case["expr"].as_str().unwrap_or("");
    let r = ev.eval(src);
    println!("{src}\n  => {}", r.fingerprint());
    if let Some(v) = r.value() {
        println!("  base (impl): {:?}", to_base_parts(v));
    }
    println!("  expected base value {} dim {}", case["expected_base_value"], case["expected_dim"]);
    2
}
