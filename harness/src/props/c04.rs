//! C04 — conversion yields exactly the requested unit and the same quantity.

use crate::common::*;
use crate::props::c03::collision_leaves;
use crate::uexpr::*;
use crate::units::*;
use numbat::value::Value;
use serde_json::{Value as J, json};
use std::collections::BTreeMap;

pub const TOL: f64 = 1e-9;

#[derive(Clone, Debug)]
pub struct Case {
    /// source quantity expression
    pub q: String,
    /// target unit expression (magnitude 1)
    pub u: String,
    /// optional intermediate target (may have a magnitude)
    pub via: Option<String>,
    /// optional magnitude on the target: `q -> k u`
    pub k: Option<&'static str>,
}

impl Case {
    pub fn expr(&self) -> String {
        let target = match self.k {
            Some(k) => format!("({k} * {})", self.u),
            None => self.u.clone(),
        };
        match &self.via {
            Some(w) => format!("(({}) -> {}) -> {}", self.q, w, target),
            None => format!("({}) -> {}", self.q, target),
        }
    }
    pub fn key(&self) -> String {
        format!("input:{}", self.expr())
    }
}

fn base_val(defs: &UnitDefs, v: &Value) -> Option<(f64, Dim)> {
    defs.value_in_base(v)
}

pub fn judge(ev: &mut Evaluator, defs: &UnitDefs, c: &Case) -> Result<String, String> {
    // the pieces, all evaluated by the interpreter
    let q_raw = ev.raw(&c.q).ok_or("machinery: source does not evaluate")?;
    let u_raw = ev.raw(&c.u).ok_or("machinery: target does not evaluate")?;
    let (qb, qd) = base_val(defs, &q_raw).ok_or("machinery: unknown unit in source")?;
    let (ub, ud) = base_val(defs, &u_raw).ok_or("machinery: unknown unit in target")?;
    if qd != ud {
        return Err("machinery: source and target differ in dimension".into());
    }
    let u_text = unit_text(&u_raw).unwrap_or_default();
    let (u_mag, u_factors) = quantity_parts(&u_raw).unwrap();
    if u_mag != 1.0 {
        return Err("machinery: target unit expression has a magnitude".into());
    }
    let _ = ub;
    // the conversion as a *result* (what is displayed) ...
    let r = ev.eval(&c.expr());
    if let Some(p) = r.panic() {
        return Err(format!("PANIC {} at {}", p.message, p.site()));
    }
    let Some(res) = r.value().cloned() else {
        return Err(format!("conversion fails: {}", r.err_string().unwrap_or_default()));
    };
    // ... and as a raw value bound to a variable
    let raw = ev.raw(&c.expr()).ok_or("conversion fails inside a `let`")?;
    let shown = res.pretty_print().to_string();
    for (what, v) in [("displayed result", &res), ("bound value", &raw)] {
        let (x, fs) = quantity_parts(v).ok_or("result is not a quantity")?;
        // (i) exactly the requested unit
        if fs != u_factors {
            return Err(format!(
                "{what} has unit `{}` [{}], requested `{}` [{}]",
                unit_text(v).unwrap_or_default(),
                factors_string(&fs),
                u_text,
                factors_string(&u_factors)
            ));
        }
        // (ii) same physical quantity
        let (vb, _) = base_val(defs, v).ok_or("machinery: unknown unit in result")?;
        let ok = if qb == 0.0 { vb == 0.0 } else if qb.is_finite() { close(vb, qb, TOL) } else { vb == qb };
        if !ok {
            return Err(format!(
                "{what} {x:e} {u_text} is {vb:e} in base units, the source quantity is {qb:e}"
            ));
        }
    }
    // display text: `<number> <unit>` or, with a magnitude on the target, `<coeff> × <k> <unit>`
    let (x, _) = quantity_parts(&res).unwrap();
    match c.k {
        None => {
            let want_suffix = if u_text.is_empty() { String::new() } else { u_text.clone() };
            let tail_ok = shown.ends_with(&want_suffix) && !shown.contains('×');
            if !tail_ok {
                return Err(format!("displayed as `{shown}`, expected a plain multiple of `{u_text}`"));
            }
        }
        Some(k) => {
            let kf: f64 = k.parse().unwrap();
            if kf != 1.0 {
                // `coeff × k unit`
                let Some((coeff, rest)) = shown.split_once(" × ") else {
                    return Err(format!("displayed as `{shown}`, expected `<n> × {k} {u_text}`"));
                };
                let coeff: f64 = coeff.replace('_', "").parse().map_err(|_| format!("displayed as `{shown}`: coefficient is not a number"))?;
                if !rest.ends_with(&u_text) {
                    return Err(format!("displayed as `{shown}`, expected a multiple of `{k} {u_text}`"));
                }
                let kshown: f64 = rest[..rest.len() - u_text.len()].trim().replace('_', "").parse().map_err(|_| format!("displayed as `{shown}`: multiple is not a number"))?;
                if !close(kshown, kf, 1e-5) {
                    return Err(format!("displayed as `{shown}`, expected a multiple of `{k} {u_text}`"));
                }
                // coeff * k [u] == x [u] within display precision
                if !close(coeff * kf, x, 2e-5) && !(x == 0.0 && coeff == 0.0) {
                    return Err(format!("displayed as `{shown}` = {} {u_text}, but the value is {x:e} {u_text}", coeff * kf));
                }
            }
        }
    }
    // the displayed text, read back as input, is a quantity in exactly the requested unit with the
    // displayed magnitude (catches a unit that is *rendered* differently from what it is)
    if c.k.is_none() && x.is_finite() {
        // digit separators only (unit names contain underscores, too)
        let cs: Vec<char> = shown.chars().collect();
        let text: String = (0..cs.len()).filter(|&i| !(cs[i] == '_' && i > 0 && i + 1 < cs.len() && cs[i - 1].is_ascii_digit() && cs[i + 1].is_ascii_digit())).map(|i| cs[i]).collect();
        match ev.raw(&format!("({text})")) {
            Some(back) => {
                let (bx, bf) = quantity_parts(&back).ok_or("displayed text does not read back as a quantity")?;
                if bf != u_factors {
                    return Err(format!("displayed as `{shown}`, which reads back with unit [{}] instead of the requested [{}]", factors_string(&bf), factors_string(&u_factors)));
                }
                if !(close(bx, x, 1e-4) || (x == 0.0 && bx == 0.0)) {
                    return Err(format!("displayed as `{shown}`, which reads back as {bx:e} {u_text}, the value is {x:e}"));
                }
            }
            None => return Err(format!("displayed as `{shown}`, which is not accepted as input")),
        }
    }
    // (iii) converting back restores the magnitude
    if c.via.is_none() && c.k.is_none() {
        let (q_mag, q_factors) = quantity_parts(&q_raw).unwrap();
        let q_unit_expr = ev.raw(&format!("({}) -> ({})", c.expr(), unit_expr_of(&c.q)));
        if let Some(back) = q_unit_expr {
            let (bx, bf) = quantity_parts(&back).ok_or("round trip is not a quantity")?;
            if bf != q_factors {
                return Err(format!("converting back gives unit [{}], the source has [{}]", factors_string(&bf), factors_string(&q_factors)));
            }
            let ok = if q_mag == 0.0 { bx == 0.0 } else if q_mag.is_finite() { close(bx, q_mag, TOL) } else { bx == q_mag };
            if !ok {
                return Err(format!("converting back gives {bx:e}, the source magnitude is {q_mag:e}"));
            }
        } else {
            return Err("converting back to the source unit fails".into());
        }
    }
    Ok(shown)
}

/// `(<mag> * <unitexpr>)` -> `<unitexpr>` ; sources are always rendered as `(mag * unit)`
fn unit_expr_of(q: &str) -> String {
    // q = "(<mag> * <unit expr>)"  or "((-2.5) * <unit expr>)"
    let inner = &q[1..q.len() - 1];
    let idx = inner.find(" * ").unwrap();
    inner[idx + 3..].to_string()
}

pub fn check(rep: &mut Report) {
    let base = all_ctx();
    let defs = match UnitDefs::build(&base) {
        Ok(d) => d,
        Err(e) => {
            rep.machinery_error(e);
            return;
        }
    };
    let pairs = defs.same_dim_pairs(false);
    let mags: Vec<&'static str> = match rep.tier {
        Tier::Quick => vec!["1", "0", "-2.5", "40.5", "1e-7"],
        Tier::Thorough => M8.to_vec(),
    };
    let mut cases: Vec<Case> = vec![];
    for (a, b) in &pairs {
        for x in &mags {
            let q = if x.starts_with('-') { format!("(({x}) * {a})") } else { format!("({x} * {a})") };
            cases.push(Case { q, u: b.clone(), via: None, k: None });
        }
        // multiple of the target unit
        cases.push(Case { q: format!("(40.5 * {a})"), u: b.clone(), via: None, k: Some("45") });
        // through a target with a magnitude, then to the plain unit (chained conversions)
        cases.push(Case { q: format!("(40.5 * {a})"), u: b.clone(), via: Some(format!("(2.5 * {b})")), k: None });
        cases.push(Case { q: format!("(0 * {a})"), u: b.clone(), via: Some(format!("(2.5 * {a})")), k: None });
    }
    // path independence through an intermediate unit
    let mut by_dim: BTreeMap<String, Vec<String>> = BTreeMap::new();
    for u in defs.units.values() {
        by_dim.entry(dim_string(&u.dim)).or_default().push(u.name.clone());
    }
    for us in by_dim.values() {
        for a in us {
            for b in us {
                if a == b {
                    continue;
                }
                let ws: Vec<&String> = match rep.tier {
                    Tier::Quick => us.iter().filter(|w| *w != a && *w != b).take(2).collect(),
                    Tier::Thorough => us.iter().filter(|w| *w != a && *w != b).collect(),
                };
                for w in ws {
                    cases.push(Case { q: format!("(40.5 * {a})"), u: b.clone(), via: Some(w.clone()), k: None });
                }
            }
        }
    }
    let n_simple = cases.len();
    // compound unit expressions on either side, over the collision alphabet
    let leaves = collision_leaves(&defs, rep.tier == Tier::Thorough);
    let unit_terms: Vec<(String, Dim)> = {
        let mut atoms: Vec<(String, Dim)> = vec![];
        for l in &leaves {
            if let UExpr::Leaf { prefix, alias, unit, .. } = l {
                let p = prefix.map(|p| p.0).unwrap_or("");
                atoms.push((format!("{p}{alias}"), defs.units[unit].dim.clone()));
            }
        }
        atoms.sort_by(|a, b| a.0.cmp(&b.0));
        atoms.dedup_by(|a, b| a.0 == b.0);
        let mut terms = atoms.clone();
        for (a, da) in &atoms {
            terms.push((format!("{a}^2"), dim_pow(da, 2, 1)));
            // square- and cube-root style units
            terms.push((format!("{a}^(1/2)"), dim_pow(da, 1, 2)));
            terms.push((format!("{a}^(1/3)"), dim_pow(da, 1, 3)));
            terms.push((format!("{a}^(-1/2)"), dim_pow(da, -1, 2)));
            for (b, db) in &atoms {
                terms.push((format!("({a} * {b})"), dim_mul(da, db)));
                terms.push((format!("({a} / {b})"), dim_mul(da, &dim_inv(db))));
                terms.push((format!("({a} / {b}^2)"), dim_mul(da, &dim_pow(db, -2, 1))));
            }
        }
        terms
    };
    let mut groups: BTreeMap<String, Vec<&String>> = BTreeMap::new();
    for (t, d) in &unit_terms {
        groups.entry(dim_string(d)).or_default().push(t);
    }
    let cap = rep.tier.pick(12usize, 40usize);
    for (_, ts) in &groups {
        if ts.len() < 2 {
            continue;
        }
        // every ordered pair among (at most `cap`) terms of the group, spread over the group
        let pick: Vec<&String> = if ts.len() <= cap {
            ts.clone()
        } else {
            (0..cap).map(|i| ts[i * (ts.len() - 1) / (cap - 1)]).collect()
        };
        for a in &pick {
            for b in &pick {
                if a != b {
                    cases.push(Case { q: format!("(40.5 * {a})"), u: (*b).clone(), via: None, k: None });
                }
            }
        }
    }
    // every ordered pair of prefixes on one unit: all 24 metric prefixes on metre / gram / second,
    // all metric and binary prefixes on bit (long spellings, taken from the parser's own table)
    {
        let table = numbat::verif::prefix_table();
        let metric: Vec<String> = table.iter().filter(|(_, _, k, _)| *k == 'M').map(|(l, _, _, _)| l.to_string()).collect();
        let binary: Vec<String> = table.iter().filter(|(_, _, k, _)| *k == 'B').map(|(l, _, _, _)| l.to_string()).collect();
        if metric.len() < 20 || binary.len() < 8 {
            rep.machinery_error(format!("prefix table: {} metric, {} binary", metric.len(), binary.len()));
        }
        let mut with_none = |ps: &Vec<String>| -> Vec<String> {
            let mut v = vec![String::new()];
            v.extend(ps.iter().cloned());
            v
        };
        let m0 = with_none(&metric);
        let mut all = m0.clone();
        all.extend(binary.iter().cloned());
        for (unit, prefixes) in [("metre", &m0), ("gram", &m0), ("second", &m0), ("bit", &all)] {
            for p1 in prefixes.iter() {
                for p2 in prefixes.iter() {
                    if p1 != p2 {
                        cases.push(Case { q: format!("(40.5 * {p1}{unit})"), u: format!("{p2}{unit}"), via: None, k: None });
                    }
                }
            }
        }
    }
    let n = cases.len();
    let outs: Vec<Result<String, String>> = par_map(
        n,
        || Evaluator::new(base.clone()),
        |ev, i| judge(ev, &defs, &cases[i]),
    );
    rep.states = n as u64;
    for (i, o) in outs.into_iter().enumerate() {
        rep.transitions += 4;
        rep.evaluations += 4;
        match o {
            Ok(shown) => {
                rep.validated += 1;
                if cases[i].via.is_some() || cases[i].k.is_some() || i >= n_simple {
                    rep.nontrivial_case(&cases[i].expr());
                }
                if i % 503 == 11 {
                    rep.outcome(&shown);
                    if rep.samples.len() < 8 && i % 20120 == 11 {
                        rep.sample(json!({"expr": cases[i].expr(), "shown": shown}));
                    }
                }
            }
            Err(e) => {
                if e.starts_with("machinery") {
                    rep.machinery_error(format!("{}: {e}", cases[i].expr()));
                } else if e.starts_with("PANIC") {
                    let site = e.split(" at ").last().unwrap_or("").to_string();
                    rep.violation(format!("callsite:{site}"), format!("`{}`: {e}", cases[i].expr()), json!({"q": cases[i].q, "u": cases[i].u, "via": cases[i].via, "k": cases[i].k}));
                } else {
                    rep.violation(cases[i].key(), format!("`{}`: {e}", cases[i].expr()), json!({"q": cases[i].q, "u": cases[i].u, "via": cases[i].via, "k": cases[i].k}));
                }
            }
        }
    }
    rep.set("unit_pairs", json!(pairs.len()));
    rep.set("simple_and_chained_cases", json!(n_simple));
    rep.set("compound_cases", json!(n - n_simple));
    rep.set("compound_unit_terms", json!(unit_terms.len()));
    rep.rule = "every ordered pair of same-dimension units x magnitudes; targets with a magnitude; chained conversions (through a target with a magnitude, through every/two intermediate units); every ordered pair of same-dimension compound unit terms (a, a^2, a^(1/2), a^(1/3), a^(-1/2), a*b, a/b, a/b^2 over the collision alphabet, capped per dimension group by an even spread); checked: exact unit (factor list), same quantity in base units (reference), display form, round trip; non-trivial = chained / multiple / compound cases".into();
    rep.assumptions = vec![
        "reference = UnitDefs; tolerance 1e-9 relative; display coefficients compared at 6 significant digits".into(),
        "compound groups larger than the cap are covered by an evenly spread subset (stated in compound_cases)".into(),
    ];
}

pub fn replay(case: &J) -> i32 {
    let base = all_ctx();
    let defs = UnitDefs::build(&base).unwrap();
    let mut ev = Evaluator::new(base);
    let c = Case {
        q: case["q"].as_str().unwrap_or("").into(),
        u: case["u"].as_str().unwrap_or("").into(),
        via: case["via"].as_str().map(|s| s.to_string()),
        k: case["k"].as_str().map(|s| if s == "45" { "45" } else { "2.5" }),
    };
    println!("{}", c.expr());
    match judge(&mut ev, &defs, &c) {
        Ok(s) => {
            println!("shown: {s}\nno violation on this tree");
            0
        }
        Err(e) => {
            println!("VIOLATION reproduced: {e}");
            1
        }
    }
}
