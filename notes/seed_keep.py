#!/usr/bin/env python3
"""seed_keep.py <ID>_<tag> <detected_by: e.g. 'C06 quick'> <result line>  -> /verif/seeded/<ID>_<tag>/"""
import json, os, shutil, sys
tag, detected, result = sys.argv[1], sys.argv[2], sys.argv[3]
note = sys.argv[4] if len(sys.argv) > 4 else None
src = f"/tmp/wt_out/{tag}"; dst = f"/verif/seeded/{tag}"
os.makedirs(dst, exist_ok=True)
shutil.copy(f"{src}/rebased.diff", f"{dst}/patch.diff")
for f in os.listdir(src):
    if f.startswith("demo") and not f.endswith(".log"):
        shutil.copy(f"{src}/{f}", f"{dst}/{f}")
meta = json.load(open(f"{src}/meta.json"))
ver = dict(l.strip().split("=", 1) for l in open(f"{src}/verified.txt") if "=" in l and " " not in l.split("=")[0])
tests = open(f"{src}/verified.txt").read()
meta["verified_by_me"] = {
    "worktree_head": ver.get("head"),
    "baseline_tests": [l for l in tests.splitlines() if l.startswith("tests_passed")][0],
    "demo_with_patch_exit": ver.get("demo_with_patch_exit"),
    "demo_without_patch_exit": ver.get("demo_without_patch_exit"),
    "what_i_ran": "notes/seed_verify.sh (rebase onto /repo HEAD in the scratch worktree, cargo test --workspace --offline, demo with/without the change), then notes/seed_test.sh (git -C /repo apply; ./check; git -C /repo checkout -- .)",
}
meta["detection"] = {"check": detected, "result": result}
if note:
    meta["detection"]["history"] = note
json.dump(meta, open(f"{dst}/meta.json", "w"), indent=1)
print("kept", dst)
