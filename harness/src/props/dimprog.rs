//! Shared by C01 and C02: bounded-exhaustive generation of dimension-typed programs *without* a
//! well-typedness filter, an independent dimensional-analysis reference (`DimInfer`), and a
//! runner that extracts the static type and the run-time unit dimension of the result.

use crate::common::*;
use crate::units::*;
use numbat::value::Value;
use numbat::{Context, InterpreterSettings, NumbatError, Type};
use std::collections::BTreeMap;
use std::sync::{Arc, Mutex};

/// dimension vector over base-dimension names
pub type DV = BTreeMap<String, (i128, i128)>;

pub fn dv_mul(a: &DV, b: &DV) -> DV {
    dim_mul(a, b)
}
pub fn dv_pow(a: &DV, n: i128, d: i128) -> DV {
    dim_pow(a, n, d)
}
pub fn dv_str(a: &DV) -> String {
    dim_string(a)
}

// ------------------------------------------------------------------------------------------------
// expression AST

#[derive(Clone, Debug, PartialEq)]
pub enum X {
    Lit(&'static str),
    Zero,
    Unit(&'static str),
    Var(String),
    Neg(Box<X>),
    Bin(char, Box<X>, Box<X>), // + - * / >  ('>' = conversion `->`)
    Pow(Box<X>, &'static str, (i128, i128)),
    /// if a < b then c else d
    If(Box<X>, Box<X>, Box<X>, Box<X>),
    Call(&'static str, Vec<X>),
    List(Vec<X>),
}

impl X {
    pub fn render(&self) -> String {
        match self {
            X::Lit(l) => {
                if l.starts_with('-') { format!("({l})") } else { l.to_string() }
            }
            X::Zero => "0".into(),
            X::Unit(u) => u.to_string(),
            X::Var(v) => v.clone(),
            X::Neg(a) => format!("(-{})", a.render()),
            X::Bin('>', a, b) => format!("({} -> {})", a.render(), b.render()),
            X::Bin(op, a, b) => format!("({} {op} {})", a.render(), b.render()),
            X::Pow(a, e, _) => format!("({}^({e}))", a.render()),
            X::If(a, b, c, d) => format!("(if {} < {} then {} else {})", a.render(), b.render(), c.render(), d.render()),
            X::Call(f, args) => format!("{f}({})", args.iter().map(|a| a.render()).collect::<Vec<_>>().join(", ")),
            X::List(es) => format!("[{}]", es.iter().map(|a| a.render()).collect::<Vec<_>>().join(", ")),
        }
    }
}

// ------------------------------------------------------------------------------------------------
// reference: ordinary dimensional analysis

#[derive(Clone, Debug, PartialEq)]
pub enum RT {
    /// a quantity of this dimension
    Dim(DV),
    /// the literal 0: fits any dimension
    Any,
    /// list of quantities of this dimension (None = empty / all wildcards)
    List(Option<DV>),
}

#[derive(Debug, PartialEq)]
pub enum Reject {
    /// two quantities of different dimension are required to be equal
    Mismatch(String),
    /// outside the property's quantifier (unknown name, unsupported construct, ...)
    Excluded(String),
}

pub struct Sigs;

pub struct DimInfer<'a> {
    pub unit_dims: &'a BTreeMap<String, DV>,
    pub vars: BTreeMap<String, RT>,
}

fn unify(a: &RT, b: &RT, what: &str) -> Result<RT, Reject> {
    match (a, b) {
        (RT::Any, x) | (x, RT::Any) => Ok(x.clone()),
        (RT::Dim(x), RT::Dim(y)) => {
            if x == y {
                Ok(RT::Dim(x.clone()))
            } else {
                Err(Reject::Mismatch(format!("{what}: {} vs {}", dv_str(x), dv_str(y))))
            }
        }
        (RT::List(x), RT::List(y)) => match (x, y) {
            (None, z) | (z, None) => Ok(RT::List(z.clone())),
            (Some(p), Some(q)) => {
                if p == q {
                    Ok(RT::List(Some(p.clone())))
                } else {
                    Err(Reject::Mismatch(format!("{what}: lists of {} vs {}", dv_str(p), dv_str(q))))
                }
            }
        },
        _ => Err(Reject::Excluded("list vs quantity".into())),
    }
}

fn as_dim(t: &RT) -> Result<Option<DV>, Reject> {
    match t {
        RT::Dim(d) => Ok(Some(d.clone())),
        RT::Any => Ok(None),
        RT::List(_) => Err(Reject::Excluded("list used as quantity".into())),
    }
}

impl<'a> DimInfer<'a> {
    pub fn infer(&self, e: &X) -> Result<RT, Reject> {
        match e {
            X::Lit(_) => Ok(RT::Dim(DV::new())),
            X::Zero => Ok(RT::Any),
            X::Unit(u) => self.unit_dims.get(*u).cloned().map(RT::Dim).ok_or_else(|| Reject::Excluded(format!("unknown unit {u}"))),
            X::Var(v) => self.vars.get(v).cloned().ok_or_else(|| Reject::Excluded(format!("unknown variable {v}"))),
            X::Neg(a) => self.infer(a),
            X::Bin(op, a, b) => {
                let (ta, tb) = (self.infer(a)?, self.infer(b)?);
                match op {
                    '+' | '-' | '>' => {
                        let r = unify(&ta, &tb, &format!("operands of `{}`", if *op == '>' { "->".to_string() } else { op.to_string() }))?;
                        as_dim(&r)?;
                        Ok(r)
                    }
                    '*' | '/' => {
                        // a polymorphic zero in a product leaves the dimension open: outside the sweep
                        let (Some(da), Some(db)) = (as_dim(&ta)?, as_dim(&tb)?) else {
                            return Err(Reject::Excluded("polymorphic zero in a product".into()));
                        };
                        Ok(RT::Dim(if *op == '*' { dv_mul(&da, &db) } else { dv_mul(&da, &dv_pow(&db, -1, 1)) }))
                    }
                    _ => Err(Reject::Excluded("operator".into())),
                }
            }
            X::Pow(a, _, (n, d)) => {
                let Some(da) = as_dim(&self.infer(a)?)? else {
                    return Err(Reject::Excluded("power of a polymorphic zero".into()));
                };
                Ok(RT::Dim(dv_pow(&da, *n, *d)))
            }
            X::If(a, b, c, d) => {
                let (ta, tb) = (self.infer(a)?, self.infer(b)?);
                unify(&ta, &tb, "operands of the comparison")?;
                let (tc, td) = (self.infer(c)?, self.infer(d)?);
                unify(&tc, &td, "branches of the conditional")
            }
            X::List(es) => {
                let mut acc = RT::Any;
                for x in es {
                    let t = self.infer(x)?;
                    as_dim(&t)?;
                    acc = unify(&acc, &t, "list elements")?;
                }
                Ok(RT::List(as_dim(&acc)?))
            }
            X::Call(f, args) => {
                let ts: Result<Vec<RT>, Reject> = args.iter().map(|a| self.infer(a)).collect();
                let ts = ts?;
                let dim_of = |i: usize| -> Result<DV, Reject> {
                    match as_dim(&ts[i])? {
                        Some(d) => Ok(d),
                        None => Err(Reject::Excluded("polymorphic zero as a generic argument".into())),
                    }
                };
                match *f {
                    // fn sq(x) = x * x   (inferred, generic)
                    "sq" | "sqr" => Ok(RT::Dim(dv_pow(&dim_of(0)?, 2, 1))),
                    "sqrt" => Ok(RT::Dim(dv_pow(&dim_of(0)?, 1, 2))),
                    "cbrt" => Ok(RT::Dim(dv_pow(&dim_of(0)?, 1, 3))),
                    "abs" | "dbl" => Ok(RT::Dim(dim_of(0)?)),
                    // fn spd(d: Length, t: Time) -> Velocity = d / t
                    "spd" => {
                        let l = self.unit_dims["m"].clone();
                        let t = self.unit_dims["s"].clone();
                        unify(&ts[0], &RT::Dim(l.clone()), "argument 1 of spd (Length)")?;
                        unify(&ts[1], &RT::Dim(t.clone()), "argument 2 of spd (Time)")?;
                        Ok(RT::Dim(dv_mul(&l, &dv_pow(&t, -1, 1))))
                    }
                    // fn per_t<D: Dim>(x: D, t: Time) -> D / Time = x / t
                    "per_t" => {
                        let t = self.unit_dims["s"].clone();
                        unify(&ts[1], &RT::Dim(t.clone()), "argument 2 of per_t (Time)")?;
                        Ok(RT::Dim(dv_mul(&dim_of(0)?, &dv_pow(&t, -1, 1))))
                    }
                    // fn same2<D: Dim>(x: D, y: D) -> D = x + y ; hypot2 from the prelude
                    "same2" | "hypot2" => {
                        let r = unify(&ts[0], &ts[1], &format!("arguments of {f}"))?;
                        as_dim(&r)?;
                        match r {
                            RT::Any => Err(Reject::Excluded("two polymorphic zeros".into())),
                            r => Ok(r),
                        }
                    }
                    "mean" | "maximum" | "sum" | "head" => match &ts[0] {
                        RT::List(Some(d)) => Ok(RT::Dim(d.clone())),
                        RT::List(None) => Err(Reject::Excluded("empty / zero list".into())),
                        _ => Err(Reject::Excluded("not a list".into())),
                    },
                    other => Err(Reject::Excluded(format!("function {other}"))),
                }
            }
        }
    }
}

// ------------------------------------------------------------------------------------------------
// the scaffold session

pub const SCAFFOLD: &str = "fn sq(x) = x * x\nfn dbl<D: Dim>(x: D) -> D = x + x\nfn spd(d: Length, t: Time) -> Velocity = d / t\nfn per_t<D: Dim>(x: D, t: Time) -> D / Time = x / t\nfn same2<D: Dim>(x: D, y: D) -> D = x + y\nstruct Pair { p1: Length, p2: Time }\nlet len1 = 3 m\nlet dur1 = 2 s\nlet pair1 = Pair { p1: 4 m, p2: 5 s }";

pub fn scaffold_ctx() -> Context {
    let mut ctx = prelude_ctx();
    let r = run(&mut ctx, SCAFFOLD);
    assert!(r.is_ok(), "dimprog scaffold: {:?}", r.err_string());
    ctx
}

pub const UNITS: [&str; 12] = ["m", "km", "inch", "s", "hour", "kg", "Hz", "N", "J", "percent", "degree", "bit"];

pub struct World {
    pub ctx: Context,
    /// unit alias -> dimension vector over base dimension names
    pub unit_dims: BTreeMap<String, DV>,
    /// base unit name -> dimension vector
    pub base_unit_dims: BTreeMap<String, DV>,
    pub vars: BTreeMap<String, RT>,
}

fn type_to_dv(t: &Type) -> Option<DV> {
    match t {
        Type::Dimension(d) => {
            let mut dv = DV::new();
            for f in d.to_base_representation().iter() {
                let mut one = DV::new();
                one.insert(f.0.to_string(), (*f.1.numer(), *f.1.denom()));
                dv = dv_mul(&dv, &one);
            }
            Some(dv)
        }
        _ => None,
    }
}

impl World {
    pub fn build() -> Result<World, String> {
        let ctx = scaffold_ctx();
        // dimension of every base unit from the registry metadata (type of the unit)
        let mut base_unit_dims = BTreeMap::new();
        let mut all_unit_types: BTreeMap<String, DV> = BTreeMap::new();
        for (name, (_, meta)) in ctx.unit_representations() {
            if let Some(dv) = type_to_dv(&meta.type_) {
                all_unit_types.insert(name.to_string(), dv);
            }
        }
        for b in ctx.base_units() {
            if let Some(dv) = all_unit_types.get(b.as_str()) {
                base_unit_dims.insert(b.to_string(), dv.clone());
            }
        }
        // reference dimension of each alphabet unit: from its *run-time* definition chain
        let defs = UnitDefs::build(&ctx)?;
        let mut unit_dims = BTreeMap::new();
        for alias in UNITS {
            let unit: &str = match alias {
                "km" => "metre",
                "kg" => "gram",
                a => defs.alias_to_unit.get(a).map(|s| s.as_str()).ok_or(format!("alias {a}"))?,
            };
            let u = &defs.units[unit];
            // u.dim is over base units: translate to base dimensions
            let mut dv = DV::new();
            for (bu, (n, d)) in &u.dim {
                let bd = base_unit_dims.get(bu).ok_or(format!("base unit {bu} without dimension"))?;
                dv = dv_mul(&dv, &dv_pow(bd, *n, *d));
            }
            unit_dims.insert(alias.to_string(), dv);
        }
        let mut vars = BTreeMap::new();
        vars.insert("len1".to_string(), RT::Dim(unit_dims["m"].clone()));
        vars.insert("dur1".to_string(), RT::Dim(unit_dims["s"].clone()));
        Ok(World { ctx, unit_dims, base_unit_dims, vars })
    }

    /// dimension (over base dimensions) of a run-time quantity
    pub fn runtime_dv(&self, v: &Value) -> Option<DV> {
        let (_, fs) = to_base_parts(v)?;
        let mut dv = DV::new();
        for (name, _p, n, d) in fs {
            let bd = self.base_unit_dims.get(&name)?;
            dv = dv_mul(&dv, &dv_pow(bd, n, d));
        }
        Some(dv)
    }
}

// ------------------------------------------------------------------------------------------------
// runner

pub struct Ran {
    pub outcome: Outcome,
    pub printed: Vec<String>,
    /// static type of the last statement if it is an expression of dimension type
    pub static_dv: Option<DV>,
    /// the static type exists but is not a closed dimension type (polymorphic, list, ...)
    pub static_other: Option<String>,
}

pub fn run_typed(ctx: &mut Context, code: &str) -> Ran {
    let printed = Arc::new(Mutex::new(Vec::<String>::new()));
    let p2 = printed.clone();
    let mut settings = InterpreterSettings { print_fn: Box::new(move |m: &numbat::markup::Markup| p2.lock().unwrap().push(m.to_string())) };
    let mut static_dv = None;
    let mut static_other = None;
    let r = guarded(|| match ctx.interpret_with_settings(&mut settings, code, numbat::resolver::CodeSource::Text) {
        Ok((stmts, res)) => {
            if let Some(last) = stmts.last() {
                match numbat::verif::static_dimension(last) {
                    Some(Ok(fs)) => {
                        let mut dv = DV::new();
                        for (name, n, d) in fs {
                            let mut one = DV::new();
                            one.insert(name.to_string(), (n, d));
                            dv = dv_mul(&dv, &one);
                        }
                        static_dv = Some(dv);
                    }
                    Some(Err(t)) => static_other = Some(t),
                    None => {}
                }
            }
            match res {
                numbat::InterpreterResult::Value(v) => Outcome::Ok(Some(v)),
                numbat::InterpreterResult::Continue => Outcome::Ok(None),
            }
        }
        Err(e) => Outcome::Err(e),
    });
    let outcome = match r {
        Ok(o) => o,
        Err(p) => Outcome::Panic(p),
    };
    let printed = printed.lock().unwrap().clone();
    Ran { outcome, printed, static_dv, static_other }
}

pub fn is_type_error(e: &NumbatError) -> bool {
    matches!(e, NumbatError::TypeCheckError(_))
}

// ------------------------------------------------------------------------------------------------
// program space

pub struct Prog {
    /// statements before the final expression (each `let name = expr` / raw text)
    pub lets: Vec<(String, X)>,
    pub expr: X,
    /// annotation on the last `let` (dimension name) if any
    pub annotation: Option<(&'static str, DV)>,
}

pub fn atoms(rich: bool) -> Vec<X> {
    let mut v: Vec<X> = UNITS.iter().take(if rich { 12 } else { 8 }).map(|u| X::Unit(u)).collect();
    v.push(X::Lit("2"));
    // a subnormal literal: non-zero, so not one of the dimension-polymorphic literals (0, inf, NaN)
    v.push(X::Lit("1e-310"));
    v.push(X::Var("len1".into()));
    if rich {
        v.push(X::Lit("0.5"));
        v.push(X::Var("dur1".into()));
    }
    v
}

pub const EXPONENTS: [(&str, (i128, i128)); 6] = [("2", (2, 1)), ("3", (3, 1)), ("-1", (-1, 1)), ("1/2", (1, 2)), ("1/3", (1, 3)), ("2/3", (2, 3))];

pub fn level1(atoms: &[X]) -> Vec<X> {
    let mut v: Vec<X> = atoms.to_vec();
    for a in atoms {
        v.push(X::Neg(Box::new(a.clone())));
        for (t, r) in EXPONENTS {
            v.push(X::Pow(Box::new(a.clone()), t, r));
        }
        for f in ["sq", "sqrt", "abs", "dbl", "cbrt"] {
            v.push(X::Call(f, vec![a.clone()]));
        }
        v.push(X::Bin('+', Box::new(X::Zero), Box::new(a.clone())));
        v.push(X::Bin('-', Box::new(a.clone()), Box::new(X::Zero)));
        for b in atoms {
            for op in ['+', '-', '*', '/', '>'] {
                v.push(X::Bin(op, Box::new(a.clone()), Box::new(b.clone())));
            }
            for f in ["spd", "per_t", "same2", "hypot2"] {
                v.push(X::Call(f, vec![a.clone(), b.clone()]));
            }
            v.push(X::Call("mean", vec![X::List(vec![a.clone(), b.clone()])]));
            v.push(X::Call("head", vec![X::List(vec![a.clone(), b.clone()])]));
        }
    }
    v
}

pub fn level2(l1: &[X], atoms: &[X]) -> Vec<X> {
    let mut v = vec![];
    for t in l1 {
        if matches!(t, X::Unit(_) | X::Lit(_) | X::Var(_)) {
            continue;
        }
        for a in atoms {
            for op in ['+', '-', '*', '/', '>'] {
                v.push(X::Bin(op, Box::new(t.clone()), Box::new(a.clone())));
                v.push(X::Bin(op, Box::new(a.clone()), Box::new(t.clone())));
            }
            v.push(X::If(Box::new(t.clone()), Box::new(a.clone()), Box::new(a.clone()), Box::new(t.clone())));
            v.push(X::If(Box::new(a.clone()), Box::new(a.clone()), Box::new(t.clone()), Box::new(a.clone())));
        }
        for (txt, r) in [("2", (2, 1)), ("1/2", (1, 2)), ("-1", (-1, 1))] {
            v.push(X::Pow(Box::new(t.clone()), txt, r));
        }
        v.push(X::Call("sqrt", vec![t.clone()]));
        v.push(X::Call("dbl", vec![t.clone()]));
    }
    v
}
