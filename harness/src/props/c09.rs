//! C09 — compiled programs compute what their source means.
//!
//! All well-typed expressions up to size N over a scaffold environment (shadowing, capture before
//! redefinition, where-locals, recursion, function values, structs, lists, strings) are evaluated by
//! the real pipeline and by an independent big-step reference evaluator with lexical scoping.

use crate::common::*;
use numbat::value::Value;
use serde_json::{Value as J, json};
use std::collections::HashMap;
use std::rc::Rc;

// ------------------------------------------------------------------------------------------------
// harness AST

#[derive(Clone, Debug, PartialEq)]
pub enum E {
    Num(f64),
    Bool(bool),
    Var(&'static str),
    Neg(Box<E>),
    Not(Box<E>),
    Bin(&'static str, Box<E>, Box<E>), // + - * < == && ||
    If(Box<E>, Box<E>, Box<E>),
    Call(&'static str, Vec<E>),        // named function (scaffold or library)
    CallVal(Box<E>, Vec<E>),           // call of a function value expression
    Pipe(Box<E>, &'static str),        // x |> f
    FnRef(&'static str),
    Struct(Vec<(&'static str, E)>),    // P { ... } in the given order
    Field(Box<E>, &'static str),
    List(Vec<E>),
    Str(Vec<SP>),
}

#[derive(Clone, Debug, PartialEq)]
pub enum SP {
    Lit(&'static str),
    Interp(E),
}

impl E {
    /// does the expression contain a struct literal (braces are not allowed inside interpolations)
    pub fn has_struct_literal(&self) -> bool {
        match self {
            E::Struct(_) => true,
            E::Num(_) | E::Bool(_) | E::Var(_) | E::FnRef(_) => false,
            E::Neg(a) | E::Not(a) | E::Field(a, _) | E::Pipe(a, _) => a.has_struct_literal(),
            E::Bin(_, a, b) => a.has_struct_literal() || b.has_struct_literal(),
            E::If(c, a, b) => c.has_struct_literal() || a.has_struct_literal() || b.has_struct_literal(),
            E::Call(_, args) | E::List(args) => args.iter().any(|a| a.has_struct_literal()),
            E::CallVal(f, args) => f.has_struct_literal() || args.iter().any(|a| a.has_struct_literal()),
            E::Str(parts) => parts.iter().any(|p| matches!(p, SP::Interp(e) if e.has_struct_literal())),
        }
    }
    pub fn render(&self) -> String {
        match self {
            E::Num(x) => {
                if *x < 0.0 { format!("({x})") } else { format!("{x}") }
            }
            E::Bool(b) => b.to_string(),
            E::Var(v) => v.to_string(),
            E::Neg(a) => format!("(-{})", a.render()),
            E::Not(a) => format!("(!{})", a.render()),
            E::Bin(op, a, b) => format!("({} {op} {})", a.render(), b.render()),
            E::If(c, a, b) => format!("(if {} then {} else {})", c.render(), a.render(), b.render()),
            E::Call(f, args) => format!("{f}({})", args.iter().map(|a| a.render()).collect::<Vec<_>>().join(", ")),
            E::CallVal(f, args) => format!("({})({})", f.render(), args.iter().map(|a| a.render()).collect::<Vec<_>>().join(", ")),
            E::Pipe(a, f) => format!("({} |> {f})", a.render()),
            E::FnRef(f) => f.to_string(),
            E::Struct(fs) => format!("P {{ {} }}", fs.iter().map(|(n, e)| format!("{n}: {}", e.render())).collect::<Vec<_>>().join(", ")),
            E::Field(a, f) => format!("{}.{f}", a.render()),
            E::List(es) => format!("[{}]", es.iter().map(|a| a.render()).collect::<Vec<_>>().join(", ")),
            E::Str(parts) => {
                let mut s = String::from("\"");
                for p in parts {
                    match p {
                        SP::Lit(l) => s.push_str(l),
                        SP::Interp(e) => {
                            s.push('{');
                            s.push_str(&e.render());
                            s.push('}');
                        }
                    }
                }
                s.push('"');
                s
            }
        }
    }
}

// ------------------------------------------------------------------------------------------------
// reference evaluator

#[derive(Clone, Debug)]
pub enum V {
    Num(f64),
    Bool(bool),
    Str(String),
    Struct(f64, f64), // P { a, b }
    List(Vec<V>),
    Fun(Rc<Closure>),
}

#[derive(Debug)]
pub struct Closure {
    pub name: &'static str,
    pub params: Vec<&'static str>,
    pub locals: Vec<(&'static str, E)>,
    pub body: E,
    pub env: Env,
    /// library functions implemented natively by the reference
    pub native: bool,
}

/// persistent environment: innermost binding first
#[derive(Clone, Debug, Default)]
pub struct Env(Option<Rc<EnvNode>>);
#[derive(Debug)]
pub struct EnvNode {
    name: &'static str,
    val: std::cell::RefCell<Option<V>>,
    next: Env,
}

impl Env {
    fn bind(&self, name: &'static str, val: V) -> Env {
        Env(Some(Rc::new(EnvNode { name, val: std::cell::RefCell::new(Some(val)), next: self.clone() })))
    }
    fn lookup(&self, name: &str) -> Option<V> {
        let mut cur = &self.0;
        while let Some(n) = cur {
            if n.name == name {
                return n.val.borrow().clone();
            }
            cur = &n.next.0;
        }
        None
    }
}

#[derive(Debug)]
pub struct Raise(pub String);
type RV = Result<V, Raise>;

pub struct Ref {
    /// alternative semantics used only to classify a violation: function values are looked up by
    /// name in the *latest* global environment when they are called
    pub late_fn_refs: bool,
    pub latest: Env,
    pub fuel: u64,
    pub depth: u32,
}

fn num(v: V) -> Result<f64, Raise> {
    match v {
        V::Num(x) => Ok(x),
        o => Err(Raise(format!("machinery: expected number, got {o:?}"))),
    }
}
fn boolean(v: V) -> Result<bool, Raise> {
    match v {
        V::Bool(x) => Ok(x),
        o => Err(Raise(format!("machinery: expected bool, got {o:?}"))),
    }
}

pub fn fmt_num(x: f64) -> String {
    numbat::verif::scalar_value(x).to_string()
}

pub fn show(v: &V) -> String {
    match v {
        V::Num(x) => fmt_num(*x),
        V::Bool(b) => b.to_string(),
        V::Str(s) => s.clone(),
        V::Struct(a, b) => format!("P {{ a: {}, b: {} }}", fmt_num(*a), fmt_num(*b)),
        V::List(l) => format!("[{}]", l.iter().map(show_quoted).collect::<Vec<_>>().join(", ")),
        V::Fun(c) => format!("<function: {}>", c.name),
    }
}
fn show_quoted(v: &V) -> String {
    match v {
        V::Str(s) => format!("\"{s}\""),
        o => show(o),
    }
}

impl Ref {
    pub fn eval(&mut self, e: &E, env: &Env) -> RV {
        if self.fuel == 0 {
            return Err(Raise("fuel".into()));
        }
        self.fuel -= 1;
        match e {
            E::Num(x) => Ok(V::Num(*x)),
            E::Bool(b) => Ok(V::Bool(*b)),
            E::Var(v) | E::FnRef(v) => env.lookup(v).ok_or_else(|| Raise(format!("machinery: unbound {v}"))),
            E::Neg(a) => Ok(V::Num(-num(self.eval(a, env)?)?)),
            E::Not(a) => Ok(V::Bool(!boolean(self.eval(a, env)?)?)),
            E::Bin(op, a, b) => {
                let x = self.eval(a, env)?;
                let y = self.eval(b, env)?;
                Ok(match *op {
                    "+" => V::Num(num(x)? + num(y)?),
                    "-" => V::Num(num(x)? - num(y)?),
                    "*" => V::Num(num(x)? * num(y)?),
                    "/" => {
                        let (p, q) = (num(x)?, num(y)?);
                        if q == 0.0 {
                            return Err(Raise("division by zero".into()));
                        }
                        V::Num(p / q)
                    }
                    "<" => V::Bool(num(x)? < num(y)?),
                    ">" => V::Bool(num(x)? > num(y)?),
                    "<=" => V::Bool(num(x)? <= num(y)?),
                    ">=" => V::Bool(num(x)? >= num(y)?),
                    "!=" => V::Bool(num(x)? != num(y)?),
                    "==" => V::Bool(num(x)? == num(y)?),
                    "&&" => V::Bool(boolean(x)? && boolean(y)?),
                    "||" => V::Bool(boolean(x)? || boolean(y)?),
                    o => return Err(Raise(format!("machinery: op {o}"))),
                })
            }
            E::If(c, a, b) => {
                if boolean(self.eval(c, env)?)? {
                    self.eval(a, env)
                } else {
                    self.eval(b, env)
                }
            }
            E::Call(f, args) => {
                let fv = env.lookup(f).ok_or_else(|| Raise(format!("machinery: unbound function {f}")))?;
                let mut vals = vec![];
                for a in args {
                    vals.push(self.eval(a, env)?);
                }
                self.apply(fv, vals, false)
            }
            E::CallVal(f, args) => {
                let fv = self.eval(f, env)?;
                let mut vals = vec![];
                for a in args {
                    vals.push(self.eval(a, env)?);
                }
                self.apply(fv, vals, true)
            }
            E::Pipe(a, f) => {
                let x = self.eval(a, env)?;
                let fv = env.lookup(f).ok_or_else(|| Raise("machinery: unbound".into()))?;
                self.apply(fv, vec![x], false)
            }
            E::Struct(fs) => {
                // fields are evaluated in source order; the value is keyed by name
                let (mut a, mut b) = (None, None);
                for (n, e) in fs {
                    let v = num(self.eval(e, env)?)?;
                    if *n == "a" { a = Some(v) } else { b = Some(v) }
                }
                Ok(V::Struct(a.unwrap(), b.unwrap()))
            }
            E::Field(a, f) => match self.eval(a, env)? {
                V::Struct(x, y) => Ok(V::Num(if *f == "a" { x } else { y })),
                o => Err(Raise(format!("machinery: field of {o:?}"))),
            },
            E::List(es) => {
                let mut v = vec![];
                for a in es {
                    v.push(self.eval(a, env)?);
                }
                Ok(V::List(v))
            }
            E::Str(parts) => {
                let mut s = String::new();
                for p in parts {
                    match p {
                        SP::Lit(l) => s.push_str(l),
                        SP::Interp(e) => {
                            let v = self.eval(e, env)?;
                            s.push_str(&show(&v));
                        }
                    }
                }
                Ok(V::Str(s))
            }
        }
    }

    fn apply(&mut self, f: V, args: Vec<V>, through_value: bool) -> RV {
        let V::Fun(mut c) = f else { return Err(Raise("machinery: not a function".into())) };
        if through_value && self.late_fn_refs && !c.native {
            if let Some(V::Fun(latest)) = self.latest.lookup(c.name) {
                c = latest;
            }
        }
        if c.native {
            return self.native(c.name, args);
        }
        if self.depth > 200 {
            return Err(Raise("fuel".into()));
        }
        if c.params.len() != args.len() {
            return Err(Raise("arity".into()));
        }
        // the function's own name is visible in its body (recursion)
        let mut env = c.env.bind(c.name, V::Fun(c.clone()));
        for (p, a) in c.params.iter().zip(args) {
            env = env.bind(p, a);
        }
        for (n, e) in &c.locals {
            let v = self.eval(e, &env)?;
            env = env.bind(n, v);
        }
        self.depth += 1;
        let r = self.eval(&c.body, &env);
        self.depth -= 1;
        r
    }

    fn native(&mut self, name: &str, mut args: Vec<V>) -> RV {
        let list = |v: V| -> Result<Vec<V>, Raise> {
            match v {
                V::List(l) => Ok(l),
                o => Err(Raise(format!("machinery: expected list, got {o:?}"))),
            }
        };
        match name {
            "head" => list(args.remove(0))?.into_iter().next().ok_or_else(|| Raise("empty list".into())),
            "tail" => {
                let l = list(args.remove(0))?;
                if l.is_empty() {
                    return Err(Raise("empty list".into()));
                }
                Ok(V::List(l[1..].to_vec()))
            }
            "len" => Ok(V::Num(list(args.remove(0))?.len() as f64)),
            "cons" => {
                let x = args.remove(0);
                let mut l = list(args.remove(0))?;
                l.insert(0, x);
                Ok(V::List(l))
            }
            "cons_end" => {
                let x = args.remove(0);
                let mut l = list(args.remove(0))?;
                l.push(x);
                Ok(V::List(l))
            }
            "reverse" => {
                let mut l = list(args.remove(0))?;
                l.reverse();
                Ok(V::List(l))
            }
            "concat" => {
                let mut a = list(args.remove(0))?;
                a.extend(list(args.remove(0))?);
                Ok(V::List(a))
            }
            "map" => {
                let f = args.remove(0);
                let l = list(args.remove(0))?;
                let mut out = vec![];
                for x in l {
                    out.push(self.apply(f.clone(), vec![x], true)?);
                }
                Ok(V::List(out))
            }
            "sum" => {
                let l = list(args.remove(0))?;
                // library: foldl(_add, 0, xs)
                let mut acc = 0.0;
                for x in l {
                    acc = acc + num(x)?;
                }
                Ok(V::Num(acc))
            }
            o => Err(Raise(format!("machinery: native {o}"))),
        }
    }
}

// ------------------------------------------------------------------------------------------------
// scaffold environment: (numbat source, reference effect)

pub enum Def {
    Let(&'static str, E),
    Fn(&'static str, Vec<&'static str>, Vec<(&'static str, E)>, E, &'static str /* annotated source or "" */),
    Raw(&'static str),
}

fn v(n: &'static str) -> E {
    E::Var(n)
}
fn n(x: f64) -> E {
    E::Num(x)
}
fn bin(op: &'static str, a: E, b: E) -> E {
    E::Bin(op, Box::new(a), Box::new(b))
}
fn call(f: &'static str, args: Vec<E>) -> E {
    E::Call(f, args)
}

pub fn scaffold() -> Vec<Def> {
    vec![
        Def::Raw("struct P { a: Scalar, b: Scalar }"),
        Def::Let("xv", n(1.0)),
        Def::Fn("ff", vec!["yv"], vec![], bin("+", v("xv"), v("yv")), ""), // captures x = 1
        Def::Let("gv", E::FnRef("ff")),                                 // function value of the first f
        Def::Let("xv", n(2.0)),                                         // shadows x
        Def::Fn("gf", vec!["yv"], vec![], bin("*", call("ff", vec![v("yv")]), v("xv")), ""), // first f, x = 2
        Def::Fn("ff", vec!["yv"], vec![], bin("*", v("yv"), n(3.0)), ""), // redefinition of f
        Def::Fn("sub2", vec!["pa", "pb"], vec![], bin("-", v("pa"), bin("*", v("pb"), n(2.0))), ""),
        // parameter shadows the global x, the where-local w shadows nothing, z shadows the parameter
        Def::Fn("hf", vec!["xv"], vec![("wl", bin("*", v("xv"), n(10.0))), ("zl", bin("+", v("wl"), n(100.0)))], bin("+", v("xv"), v("zl")), ""),
        Def::Fn("fact", vec!["kn"], vec![], E::If(Box::new(bin("<", v("kn"), n(1.0))), Box::new(n(1.0)), Box::new(bin("*", v("kn"), call("fact", vec![bin("-", v("kn"), n(1.0))])))), ""),
        Def::Fn("fib", vec!["kn"], vec![], E::If(Box::new(bin("<", v("kn"), n(2.0))), Box::new(v("kn")), Box::new(bin("+", call("fib", vec![bin("-", v("kn"), n(1.0))]), call("fib", vec![bin("-", v("kn"), n(2.0))])))), ""),
        Def::Fn("ap", vec!["fnv", "uv"], vec![], E::CallVal(Box::new(v("fnv")), vec![v("uv")]), "fn ap(fnv: Fn[(Scalar) -> Scalar], uv: Scalar) -> Scalar = fnv(uv)"),
        // function values of two-parameter functions: a user function, two built-ins, and a caller
        // that applies its first argument to the other two (argument order is observable in all three)
        Def::Let("sv2", E::FnRef("sub2")),
        Def::Let("cv", E::FnRef("cons")),
        Def::Fn("ap2", vec!["fn2", "ua", "ub"], vec![], E::CallVal(Box::new(v("fn2")), vec![v("ua"), v("ub")]), ""),
        // a parameter named like a global function, used in call position: it must refer to the argument
        Def::Fn("apf", vec!["ff", "uv"], vec![], E::CallVal(Box::new(v("ff")), vec![v("uv")]), "fn apf(ff: Fn[(Scalar) -> Scalar], uv: Scalar) -> Scalar = ff(uv)"),
        Def::Let("pv", E::Struct(vec![("b", n(5.0)), ("a", n(4.0))])),
        Def::Let("xs", E::List(vec![n(7.0), n(8.0), n(9.0)])),
        Def::Let("yv", n(50.0)),
    ]
}

pub fn render_def(d: &Def) -> String {
    match d {
        Def::Raw(s) => s.to_string(),
        Def::Let(name, e) => format!("let {name} = {}", e.render()),
        Def::Fn(name, params, locals, body, src) => {
            if !src.is_empty() {
                return src.to_string();
            }
            let mut s = format!("fn {name}({}) = {}", params.join(", "), body.render());
            for (i, (ln, le)) in locals.iter().enumerate() {
                s.push_str(if i == 0 { "\n  where " } else { "\n    and " });
                s.push_str(&format!("{ln} = {}", le.render()));
            }
            s
        }
    }
}

pub fn native_env() -> Env {
    let mut env = Env::default();
    for name in ["head", "tail", "len", "cons", "cons_end", "reverse", "concat", "map", "sum"] {
        env = env.bind(
            name,
            V::Fun(Rc::new(Closure { name, params: vec![], locals: vec![], body: E::Num(0.0), env: Env::default(), native: true })),
        );
    }
    env
}

/// builds the reference environment by processing the scaffold definitions in order
pub fn reference_env(defs: &[Def]) -> Result<Env, String> {
    let mut env = native_env();
    for d in defs {
        match d {
            Def::Raw(_) => {}
            Def::Let(name, e) => {
                let mut r = Ref { late_fn_refs: false, latest: Env::default(), fuel: 100_000, depth: 0 };
                let val = r.eval(e, &env).map_err(|x| x.0)?;
                env = env.bind(name, val);
            }
            Def::Fn(name, params, locals, body, _) => {
                let c = Closure { name, params: params.clone(), locals: locals.clone(), body: body.clone(), env: env.clone(), native: false };
                env = env.bind(name, V::Fun(Rc::new(c)));
            }
        }
    }
    Ok(env)
}

// ------------------------------------------------------------------------------------------------
// expression enumeration by size and type

#[derive(Clone, Copy, PartialEq, Eq, Hash, Debug)]
pub enum Ty {
    Num,
    Bool,
    List,
    Str,
    Fun,
    Struct,
}

pub struct Gen {
    memo: HashMap<(Ty, usize), Rc<Vec<E>>>,
}

impl Gen {
    pub fn new() -> Self {
        Gen { memo: HashMap::new() }
    }
    pub fn upto(&mut self, ty: Ty, size: usize) -> Vec<E> {
        let mut v = vec![];
        for s in 1..=size {
            v.extend(self.exact(ty, s).iter().cloned());
        }
        v
    }
    pub fn exact(&mut self, ty: Ty, size: usize) -> Rc<Vec<E>> {
        if let Some(r) = self.memo.get(&(ty, size)) {
            return r.clone();
        }
        let mut out: Vec<E> = vec![];
        if size == 1 {
            match ty {
                Ty::Num => {
                    out.extend([n(1.0), n(2.0), n(3.0), v("xv"), v("yv")]);
                    out.push(E::Field(Box::new(v("pv")), "a"));
                    out.push(E::Field(Box::new(v("pv")), "b"));
                }
                Ty::Bool => out.push(E::Bool(true)),
                Ty::List => out.push(v("xs")),
                Ty::Str => {}
                Ty::Fun => out.extend([E::FnRef("ff"), E::FnRef("gf"), E::FnRef("hf"), E::FnRef("gv"), E::FnRef("fact")]),
                Ty::Struct => out.push(v("pv")),
            }
        } else {
            let rest = size - 1;
            match ty {
                Ty::Num => {
                    for a in self.exact(Ty::Num, rest).iter() {
                        out.push(E::Neg(Box::new(a.clone())));
                        for f in ["ff", "gf", "hf", "fib"] {
                            out.push(call(f, vec![a.clone()]));
                        }
                        out.push(E::Pipe(Box::new(a.clone()), "gf"));
                        out.push(E::CallVal(Box::new(v("gv")), vec![a.clone()]));
                    }
                    for l in self.exact(Ty::List, rest).iter() {
                        out.push(call("head", vec![l.clone()]));
                        out.push(call("len", vec![l.clone()]));
                        out.push(call("sum", vec![l.clone()]));
                    }
                    for s in self.exact(Ty::Struct, rest).iter() {
                        if !matches!(s, E::Var(_)) {
                            out.push(E::Field(Box::new(s.clone()), "a"));
                            out.push(E::Field(Box::new(s.clone()), "b"));
                        }
                    }
                    // binary forms
                    for ls in 1..rest {
                        let rs = rest - ls;
                        let la = self.exact(Ty::Num, ls);
                        let ra = self.exact(Ty::Num, rs);
                        for a in la.iter() {
                            for b in ra.iter() {
                                for op in ["+", "-", "*", "/"] {
                                    out.push(bin(op, a.clone(), b.clone()));
                                }
                                out.push(call("sub2", vec![a.clone(), b.clone()]));
                                out.push(E::CallVal(Box::new(v("sv2")), vec![a.clone(), b.clone()]));
                            }
                        }
                        let fa = self.exact(Ty::Fun, ls);
                        for f in fa.iter() {
                            for b in ra.iter() {
                                out.push(call("ap", vec![f.clone(), b.clone()]));
                                out.push(call("apf", vec![f.clone(), b.clone()]));
                                if !matches!(f, E::FnRef(_)) {
                                    out.push(E::CallVal(Box::new(f.clone()), vec![b.clone()]));
                                }
                            }
                        }
                    }
                    // conditionals
                    if rest >= 3 {
                        for cs in 1..rest - 1 {
                            for ts in 1..rest - cs {
                                let es = rest - cs - ts;
                                let (cc, tt, ee) = (self.exact(Ty::Bool, cs), self.exact(Ty::Num, ts), self.exact(Ty::Num, es));
                                for c in cc.iter() {
                                    for t in tt.iter() {
                                        for e in ee.iter() {
                                            out.push(E::If(Box::new(c.clone()), Box::new(t.clone()), Box::new(e.clone())));
                                        }
                                    }
                                }
                            }
                        }
                    }
                }
                Ty::Bool => {
                    for a in self.exact(Ty::Bool, rest).iter() {
                        out.push(E::Not(Box::new(a.clone())));
                    }
                    for ls in 1..rest {
                        let rs = rest - ls;
                        let (la, ra) = (self.exact(Ty::Num, ls), self.exact(Ty::Num, rs));
                        for a in la.iter() {
                            for b in ra.iter() {
                                for op in ["<", "==", ">", "<=", ">=", "!="] {
                                    out.push(bin(op, a.clone(), b.clone()));
                                }
                            }
                        }
                        let (lb, rb) = (self.exact(Ty::Bool, ls), self.exact(Ty::Bool, rs));
                        for a in lb.iter() {
                            for b in rb.iter() {
                                out.push(bin("&&", a.clone(), b.clone()));
                                out.push(bin("||", a.clone(), b.clone()));
                            }
                        }
                    }
                }
                Ty::List => {
                    for l in self.exact(Ty::List, rest).iter() {
                        out.push(call("tail", vec![l.clone()]));
                        out.push(call("reverse", vec![l.clone()]));
                    }
                    for a in self.exact(Ty::Num, rest).iter() {
                        out.push(E::List(vec![a.clone()]));
                    }
                    for ls in 1..rest {
                        let rs = rest - ls;
                        let (na, nb) = (self.exact(Ty::Num, ls), self.exact(Ty::Num, rs));
                        for a in na.iter() {
                            for b in nb.iter() {
                                out.push(E::List(vec![a.clone(), b.clone()]));
                            }
                        }
                        let lb = self.exact(Ty::List, rs);
                        for a in na.iter() {
                            for l in lb.iter() {
                                out.push(call("cons", vec![a.clone(), l.clone()]));
                                out.push(call("cons_end", vec![a.clone(), l.clone()]));
                                out.push(E::CallVal(Box::new(v("cv")), vec![a.clone(), l.clone()]));
                                out.push(call("ap2", vec![E::FnRef("cons_end"), a.clone(), l.clone()]));
                            }
                        }
                        let fa = self.exact(Ty::Fun, ls);
                        for f in fa.iter() {
                            for l in lb.iter() {
                                out.push(call("map", vec![f.clone(), l.clone()]));
                            }
                        }
                        let la = self.exact(Ty::List, ls);
                        for a in la.iter() {
                            for l in lb.iter() {
                                out.push(call("concat", vec![a.clone(), l.clone()]));
                            }
                        }
                    }
                }
                Ty::Str => {
                    // one and two interpolations with fixed parts in every arrangement
                    for a in self.exact(Ty::Num, rest).iter() {
                        out.push(E::Str(vec![SP::Lit("s"), SP::Interp(a.clone()), SP::Lit("t")]));
                        out.push(E::Str(vec![SP::Interp(a.clone())]));
                    }
                    for l in self.exact(Ty::List, rest).iter() {
                        out.push(E::Str(vec![SP::Lit("l="), SP::Interp(l.clone())]));
                    }
                    for ls in 1..rest {
                        let rs = rest - ls;
                        let (na, nb) = (self.exact(Ty::Num, ls), self.exact(Ty::Num, rs));
                        for a in na.iter() {
                            for b in nb.iter() {
                                out.push(E::Str(vec![SP::Interp(a.clone()), SP::Lit(","), SP::Interp(b.clone())]));
                                out.push(E::Str(vec![SP::Lit("<"), SP::Interp(a.clone()), SP::Interp(b.clone()), SP::Lit(">")]));
                            }
                        }
                    }
                }
                Ty::Fun => {
                    // a function value chosen by a conditional
                    if rest >= 3 {
                        let cs = rest - 2;
                        let cc = self.exact(Ty::Bool, cs);
                        let ff = self.exact(Ty::Fun, 1);
                        for c in cc.iter() {
                            for a in ff.iter() {
                                for b in ff.iter() {
                                    if a != b {
                                        out.push(E::If(Box::new(c.clone()), Box::new(a.clone()), Box::new(b.clone())));
                                    }
                                }
                            }
                        }
                    }
                }
                Ty::Struct => {
                    for ls in 1..rest {
                        let rs = rest - ls;
                        let (na, nb) = (self.exact(Ty::Num, ls), self.exact(Ty::Num, rs));
                        for a in na.iter() {
                            for b in nb.iter() {
                                out.push(E::Struct(vec![("a", a.clone()), ("b", b.clone())]));
                                out.push(E::Struct(vec![("b", a.clone()), ("a", b.clone())]));
                            }
                        }
                    }
                }
            }
        }
        if ty == Ty::Str {
            out.retain(|e| !e.has_struct_literal());
        }
        let r = Rc::new(out);
        self.memo.insert((ty, size), r.clone());
        r
    }
}

// ------------------------------------------------------------------------------------------------
// comparison

fn norm_zero(s: &str) -> String {
    // "-0" as a whole number token is the same value as "0"
    let mut out = String::new();
    let b: Vec<char> = s.chars().collect();
    let mut i = 0;
    while i < b.len() {
        if b[i] == '-' && i + 1 < b.len() && b[i + 1] == '0' && (i + 2 >= b.len() || !(b[i + 2].is_ascii_digit() || b[i + 2] == '.')) && (i == 0 || !b[i - 1].is_ascii_alphanumeric()) {
            i += 1;
            continue;
        }
        out.push(b[i]);
        i += 1;
    }
    out
}

pub fn same(v: &V, got: &Value) -> bool {
    match (v, got) {
        (V::Num(x), Value::Quantity(_)) => match quantity_parts(got) {
            Some((y, fs)) => fs.is_empty() && (*x == y || (x.is_nan() && y.is_nan())),
            None => false,
        },
        (V::Bool(a), Value::Boolean(b)) => a == b,
        (V::Str(a), Value::String(b)) => norm_zero(a) == norm_zero(b.as_str()),
        (V::Struct(a, b), Value::StructInstance(info, vals)) => {
            let names: Vec<&str> = info.fields.keys().map(|k| k.as_str()).collect();
            if names != ["a", "b"] || vals.len() != 2 {
                return false;
            }
            same(&V::Num(*a), &vals[0]) && same(&V::Num(*b), &vals[1])
        }
        (V::List(l), Value::List(g)) => {
            let gv: Vec<&Value> = g.iter().collect();
            l.len() == gv.len() && l.iter().zip(gv.iter()).all(|(a, b)| same(a, b))
        }
        (V::Fun(c), Value::FunctionReference(r)) => r.to_string().contains(c.name),
        _ => false,
    }
}

pub struct Session {
    pub ctx: numbat::Context,
    pub env: Env,
}

pub fn build_session(defs: &[Def]) -> Result<Session, String> {
    let mut ctx = prelude_ctx();
    for d in defs {
        let src = render_def(d);
        let r = run(&mut ctx, &src);
        if !r.is_ok() {
            return Err(format!("scaffold statement `{src}` fails: {}", r.err_string().unwrap_or_default()));
        }
    }
    let env = reference_env(defs)?;
    Ok(Session { ctx, env })
}

/// true when the reference evaluation of `e` finishes within the fuel bound under both readings of
/// function values (the implementation cannot be interrupted, so only such inputs are run)
pub fn terminates(env: &Env, e: &E) -> bool {
    for late in [false, true] {
        let mut r = Ref { late_fn_refs: late, latest: env.clone(), fuel: 20_000, depth: 0 };
        if let Err(Raise(m)) = r.eval(e, env) {
            if m == "fuel" || m.starts_with("machinery") || m.contains("depth") {
                return false;
            }
        }
    }
    true
}

pub fn judge(base: &numbat::Context, env: &Env, e: &E) -> Result<&'static str, String> {
    let mut r = Ref { late_fn_refs: false, latest: env.clone(), fuel: 20_000, depth: 0 };
    let want = match r.eval(e, env) {
        Ok(v) => v,
        Err(Raise(m)) => {
            if m.starts_with("machinery") {
                return Err(format!("MACHINERY {m}"));
            }
            return Ok("unspecified");
        }
    };
    // The implementation cannot be interrupted. Under the known late-binding defect of function
    // values it may compute a much larger recursion argument than the reference; only run inputs
    // on which that alternative reading terminates within the fuel bound as well.
    {
        let mut r2 = Ref { late_fn_refs: true, latest: env.clone(), fuel: 20_000, depth: 0 };
        if let Err(Raise(m)) = r2.eval(e, env) {
            if m == "fuel" {
                return Ok("unspecified");
            }
        }
    }
    let mut ctx = base.clone();
    let src = e.render();
    let t0 = std::time::Instant::now();
    let got = watch::watched("C09", "expr", &src, || run(&mut ctx, &src));
    if t0.elapsed().as_secs_f64() > 1.0 {
        eprintln!("[C09] slow ({:.1}s): {src}", t0.elapsed().as_secs_f64());
    }
    if let Some(p) = got.panic() {
        return Err(format!("PANIC {} at {}", p.message, p.site()));
    }
    let Some(val) = got.value() else {
        // the recorded late-binding reading may itself end in a run-time error (1 / gv(0))
        let mut r2 = Ref { late_fn_refs: true, latest: env.clone(), fuel: 20_000, depth: 0 };
        if let Err(Raise(m)) = r2.eval(e, env) {
            let impl_err = got.err_string().unwrap_or_default().to_lowercase();
            let same_error = (m == "division by zero" && impl_err.contains("division by zero")) || (m == "empty list" && impl_err.contains("empty"));
            if same_error {
                return Err(format!("CLASS:function-value-late-binding fails with `{}` but lexical scoping gives {} (under the late-binding reading of function values the program raises `{m}`)", got.err_string().unwrap_or_default(), show(&want)));
            }
        }
        return Err(format!("the language's rules give {} but evaluation fails: {}", show(&want), got.err_string().unwrap_or_else(|| "no value".into())));
    };
    if same(&want, val) {
        return Ok("agree");
    }
    // classify: late binding of function values?
    let mut r2 = Ref { late_fn_refs: true, latest: env.clone(), fuel: 20_000, depth: 0 };
    if let Ok(alt) = r2.eval(e, env) {
        if same(&alt, val) {
            return Err(format!("CLASS:function-value-late-binding evaluates to {} but lexical scoping gives {} (a function value calls the latest definition of that name instead of the one it was created from)", val, show(&want)));
        }
    }
    Err(format!("evaluates to {} but the language's rules give {}", val, show(&want)))
}

pub fn check(rep: &mut Report) {
    let defs = scaffold();
    let sess = match build_session(&defs) {
        Ok(s) => s,
        Err(e) => {
            rep.machinery_error(e);
            return;
        }
    };
    let size = std::env::var("C09_SIZE").ok().and_then(|s| s.parse().ok()).unwrap_or(rep.tier.pick(5, 6));
    let mut g = Gen::new();
    let mut exprs: Vec<E> = vec![];
    for ty in [Ty::Num, Ty::Bool, Ty::List, Ty::Str, Ty::Struct, Ty::Fun] {
        let max = match ty {
            Ty::Num => size,
            Ty::Fun => size,
            _ => size,
        };
        exprs.extend(g.upto(ty, max));
    }
    // scaffold self-test values (pin the meaning of the scaffold itself)
    let n_exprs = exprs.len();
    // `Rc` environments are not Send: each worker rebuilds its own reference environment
    let base = sess.ctx.clone();
    drop(sess);
    // Phase 1: expressions that do not call the recursive scaffold functions (they terminate
    // whatever the implementation does); phase 2: the rest.  If phase 1 already shows a violation
    // that is not a recorded finding, phase 2 is skipped: a broken implementation may loop forever in
    // it, and the phase-1 counterexamples are the smaller ones anyway.
    let mut rendered: Vec<E> = exprs;
    rendered.sort_by_key(|e| {
        let t = e.render();
        t.contains("fib(") || t.contains("fact(") || t.contains("fib)") || t.contains("fact)") || t.contains("|> fib") || t.contains("|> fact")
    });
    let n1 = rendered.iter().filter(|e| {
        let t = e.render();
        !(t.contains("fib(") || t.contains("fact(") || t.contains("fib)") || t.contains("fact)") || t.contains("|> fib") || t.contains("|> fact"))
    }).count();
    let mut outs: Vec<Result<&'static str, String>> = par_map(
        n1,
        || reference_env(&scaffold()).expect("scaffold"),
        |env, i| judge(&base, env, &rendered[i]),
    );
    let known: Vec<String> = load_known_findings().into_iter().filter(|k| k.property == "C09").map(|k| k.key).collect();
    let fresh_in_phase1 = outs.iter().zip(rendered.iter()).any(|(o, e)| match o {
        Err(m) if m.starts_with("MACHINERY") => false,
        Err(m) => {
            let key = if let Some(rest) = m.strip_prefix("CLASS:") { format!("class:{}", rest.split(' ').next().unwrap_or("")) } else if m.starts_with("PANIC") { format!("callsite:{}", m.split(" at ").last().unwrap_or("")) } else { format!("input:{}", e.render()) };
            !known.contains(&key)
        }
        _ => false,
    });
    let n_exprs = if fresh_in_phase1 {
        rep.set("phase_2_skipped", json!("phase 1 (expressions without recursive calls) found violations that are not recorded findings"));
        rep.exhaustive = false;
        n1
    } else {
        let rest: Vec<Result<&'static str, String>> = par_map(
            n_exprs - n1,
            || reference_env(&scaffold()).expect("scaffold"),
            |env, i| judge(&base, env, &rendered[n1 + i]),
        );
        outs.extend(rest);
        n_exprs
    };
    rendered.truncate(n_exprs);
    rep.states = n_exprs as u64;
    let (mut agree, mut unspec) = (0u64, 0u64);
    for (i, o) in outs.into_iter().enumerate() {
        rep.transitions += 1;
        rep.evaluations += 1;
        let src = rendered[i].render();
        match o {
            Ok("agree") => {
                agree += 1;
                rep.validated += 1;
                if i % 1009 == 5 {
                    rep.outcome(&src);
                    if rep.samples.len() < 8 && i % 7063 == 5 {
                        rep.sample(json!({"expr": src}));
                    }
                }
            }
            Ok(_) => unspec += 1,
            Err(e) => {
                if let Some(m) = e.strip_prefix("MACHINERY ") {
                    rep.machinery_error(format!("`{src}`: {m}"));
                } else if e.starts_with("PANIC") {
                    let site = e.split(" at ").last().unwrap_or("").to_string();
                    rep.violation(format!("callsite:{site}"), format!("`{src}`: {e}"), json!({"expr": src, "index": i}));
                } else if let Some(rest) = e.strip_prefix("CLASS:") {
                    let class = rest.split(' ').next().unwrap_or("");
                    rep.violation(format!("class:{class}"), format!("`{src}` {}", &rest[class.len() + 1..]), json!({"expr": src, "index": i}));
                } else {
                    rep.violation(format!("input:{src}"), format!("`{src}` {e}"), json!({"expr": src, "index": i}));
                }
            }
        }
    }
    rep.nontrivial_extra = agree;
    rep.set("expressions", json!(n_exprs));
    rep.set("max_size", json!(size));
    rep.set("agree", json!(agree));
    rep.set("unspecified_reference_raises", json!(unspec));
    rep.set("scaffold", json!(defs.iter().map(render_def).collect::<Vec<_>>()));
    rep.rule = "every well-typed expression of size <= N (numbers, booleans, lists, strings, structs, function values) over a scaffold session that forces shadowing, capture before redefinition of variables and functions, parameter/where-local shadowing, recursion, two-parameter calls, function values (one- and two-parameter, user-defined and built-in) and |>, struct literals in both field orders, list construction and string interpolation; each evaluated by the real pipeline in a clone of the scaffold session and by an independent big-step evaluator (lexical scoping, call by value, lazy conditionals, IEEE arithmetic); non-trivial = expressions on which both sides produced a value and were compared".into();
    rep.assumptions = vec![
        "reference semantics: every definition creates a new immutable binding; functions capture the environment of their definition (pinned by the suite's own overwrite tests)".into(),
        "expressions on which the reference raises (head/tail of an empty list) are unspecified; && and || are evaluated strictly by both sides".into(),
        "number-to-text inside strings is delegated to the implementation's formatter (C14's subject); -0 and 0 are the same value".into(),
    ];
}

pub fn replay(case: &J) -> i32 {
    let defs = scaffold();
    let sess = match build_session(&defs) {
        Ok(s) => s,
        Err(e) => {
            println!("{e}");
            return 2;
        }
    };
    for d in &defs {
        println!("{}", render_def(d));
    }
    let src = case["expr"].as_str().unwrap_or("");
    let size = 5;
    let mut g = Gen::new();
    for ty in [Ty::Num, Ty::Bool, Ty::List, Ty::Str, Ty::Struct, Ty::Fun] {
        for e in g.upto(ty, size) {
            if e.render() == src {
                println!(">>> {src}");
                return match judge(&sess.ctx, &sess.env, &e) {
                    Ok(v) => {
                        println!("{v}: no violation on this tree");
                        0
                    }
                    Err(m) => {
                        println!("VIOLATION reproduced: {m}");
                        1
                    }
                };
            }
        }
    }
    println!("expression not found in the enumeration");
    2
}
