//! `UnitDefs`: reference model of the standard-library units, built from each unit's *direct*
//! definition (factor + defining unit) as stored in the VM, with the base factor computed by an
//! independent recursion (own prefix table, own power function).

use crate::common::*;
use numbat::Context;
use numbat::value::Value;
use std::collections::BTreeMap;

pub type Dim = BTreeMap<String, (i128, i128)>; // base unit name -> exponent (num, den), non-zero

#[derive(Clone, Debug)]
pub struct Factor {
    pub name: String,
    pub prefix: Pfx,
    pub num: i128,
    pub den: i128,
}

#[derive(Clone, Copy, Debug, PartialEq, Eq, PartialOrd, Ord, Hash)]
pub enum Pfx {
    Metric(i32),
    Binary(i32),
}

impl Pfx {
    pub fn none() -> Pfx {
        Pfx::Metric(0)
    }
    pub fn parse_debug(s: &str) -> Pfx {
        // "Metric(3)" / "Binary(10)"
        let inner = s[s.find('(').unwrap() + 1..s.len() - 1].parse::<i32>().unwrap();
        if s.starts_with("Metric") {
            Pfx::Metric(inner)
        } else {
            Pfx::Binary(inner)
        }
    }
    /// independent prefix factor: decimal literal parsing for 10^n, exact power of two for 2^n
    pub fn factor(self) -> f64 {
        match self {
            Pfx::Metric(n) => format!("1e{n}").parse::<f64>().unwrap(),
            Pfx::Binary(n) => {
                let mut x = 1.0f64;
                for _ in 0..n.abs() {
                    x *= 2.0;
                }
                if n < 0 { 1.0 / x } else { x }
            }
        }
    }
}

#[derive(Clone, Debug)]
pub struct UnitInfo {
    pub name: String,
    /// (alias, accepts short prefixes, accepts long prefixes)
    pub aliases: Vec<(String, bool, bool)>,
    pub metric: bool,
    pub binary: bool,
    pub canonical: String,
    pub canonical_short: bool,
    pub canonical_long: bool,
    /// None = base unit; Some((factor, defining unit factors)) = direct definition
    pub def: Option<(f64, Vec<Factor>)>,
    /// reference: factor to base units and base-unit exponents, computed by `UnitDefs`
    pub base_factor: f64,
    pub dim: Dim,
    /// registry's base representation (implementation side; cross-checked against `dim`)
    pub registry_dim: Dim,
}

pub struct UnitDefs {
    pub units: BTreeMap<String, UnitInfo>,
    /// alias -> unit name
    pub alias_to_unit: BTreeMap<String, String>,
}

pub fn parse_factors(fs: &Factors) -> Vec<Factor> {
    fs.iter()
        .map(|(n, p, a, b)| Factor {
            name: n.clone(),
            prefix: Pfx::parse_debug(p),
            num: *a,
            den: *b,
        })
        .collect()
}

fn dim_add(d: &mut Dim, name: &str, num: i128, den: i128) {
    let (a, b) = d.get(name).copied().unwrap_or((0, 1));
    // a/b + num/den
    let n = a * den + num * b;
    let m = b * den;
    let g = gcd(n.abs(), m.abs()).max(1);
    let (n, m) = (n / g, m / g);
    if n == 0 {
        d.remove(name);
    } else {
        d.insert(name.to_string(), (n, m));
    }
}

pub fn gcd(a: i128, b: i128) -> i128 {
    if b == 0 { a } else { gcd(b, a % b) }
}

pub fn dim_mul(a: &Dim, b: &Dim) -> Dim {
    let mut d = a.clone();
    for (k, (n, m)) in b {
        dim_add(&mut d, k, *n, *m);
    }
    d
}

pub fn dim_pow(a: &Dim, num: i128, den: i128) -> Dim {
    let mut d = Dim::new();
    for (k, (n, m)) in a {
        dim_add(&mut d, k, n * num, m * den);
    }
    d
}

pub fn dim_inv(a: &Dim) -> Dim {
    dim_pow(a, -1, 1)
}

pub fn dim_string(d: &Dim) -> String {
    if d.is_empty() {
        return "1".into();
    }
    d.iter()
        .map(|(k, (n, m))| {
            if *m == 1 {
                format!("{k}^{n}")
            } else {
                format!("{k}^{n}/{m}")
            }
        })
        .collect::<Vec<_>>()
        .join("·")
}

pub fn powq(x: f64, num: i128, den: i128) -> f64 {
    if den == 1 {
        if num == 1 {
            return x;
        }
        if num == -1 {
            return 1.0 / x;
        }
        if num.abs() <= 64 {
            return x.powi(num as i32);
        }
    }
    x.powf(num as f64 / den as f64)
}

impl UnitDefs {
    pub fn build(ctx: &Context) -> Result<UnitDefs, String> {
        let mut units = BTreeMap::new();
        let mut alias_to_unit = BTreeMap::new();
        let reps: Vec<_> = ctx.unit_representations().collect();
        for (name, (base_repr, meta)) in reps {
            let mut c = ctx.clone();
            let Some(Value::Quantity(q)) = raw_eval(&mut c, name.as_str()) else {
                return Err(format!("unit {name} does not evaluate to a quantity"));
            };
            let mut fs = q.unit().iter();
            let Some(f) = fs.next() else {
                return Err(format!("unit {name} evaluates to a scalar"));
            };
            if f.unit_id.name.as_str() != name.as_str() {
                return Err(format!("unit {name} evaluates to unit {}", f.unit_id.name));
            }
            let def = if f.unit_id.is_base() {
                None
            } else {
                let bf = f.unit_id.unit_and_factor();
                let unit = bf.0;
                let factor = bf.1.to_f64();
                let facs: Factors = unit
                    .iter()
                    .map(|f| {
                        (
                            f.unit_id.name.to_string(),
                            format!("{:?}", f.prefix),
                            *f.exponent.numer(),
                            *f.exponent.denom(),
                        )
                    })
                    .collect();
                Some((factor, parse_factors(&facs)))
            };
            let mut registry_dim = Dim::new();
            for f in base_repr.iter() {
                dim_add(
                    &mut registry_dim,
                    &f.0.to_string(),
                    *f.1.numer(),
                    *f.1.denom(),
                );
            }
            let info = UnitInfo {
                name: name.to_string(),
                aliases: meta
                    .aliases
                    .iter()
                    .map(|(a, ap)| (a.to_string(), ap.short, ap.long))
                    .collect(),
                metric: meta.metric_prefixes,
                binary: meta.binary_prefixes,
                canonical: meta.canonical_name.name.to_string(),
                canonical_short: meta.canonical_name.accepts_prefix.short,
                canonical_long: meta.canonical_name.accepts_prefix.long,
                def,
                base_factor: f64::NAN,
                dim: Dim::new(),
                registry_dim,
            };
            for (a, _, _) in &info.aliases {
                alias_to_unit.insert(a.clone(), info.name.clone());
            }
            units.insert(info.name.clone(), info);
        }
        let mut defs = UnitDefs {
            units,
            alias_to_unit,
        };
        let names: Vec<String> = defs.units.keys().cloned().collect();
        for n in names {
            let (f, d) = defs.resolve(&n, 0)?;
            let u = defs.units.get_mut(&n).unwrap();
            u.base_factor = f;
            u.dim = d;
        }
        Ok(defs)
    }

    fn resolve(&self, name: &str, depth: usize) -> Result<(f64, Dim), String> {
        if depth > 40 {
            return Err(format!("definition cycle at {name}"));
        }
        let u = self
            .units
            .get(name)
            .ok_or_else(|| format!("unknown unit {name} in a definition"))?;
        match &u.def {
            None => {
                let mut d = Dim::new();
                d.insert(name.to_string(), (1, 1));
                Ok((1.0, d))
            }
            Some((factor, facs)) => {
                let mut f = *factor;
                let mut d = Dim::new();
                for fac in facs {
                    let (bf, bd) = self.resolve(&fac.name, depth + 1)?;
                    f *= powq(fac.prefix.factor() * bf, fac.num, fac.den);
                    d = dim_mul(&d, &dim_pow(&bd, fac.num, fac.den));
                }
                Ok((f, d))
            }
        }
    }

    /// factor to base units and dimension of a list of unit factors (reference side)
    pub fn base_of(&self, facs: &[Factor]) -> Option<(f64, Dim)> {
        let mut f = 1.0;
        let mut d = Dim::new();
        for fac in facs {
            let u = self.units.get(&fac.name)?;
            f *= powq(fac.prefix.factor() * u.base_factor, fac.num, fac.den);
            d = dim_mul(&d, &dim_pow(&u.dim, fac.num, fac.den));
        }
        Some((f, d))
    }

    /// Reference: value of an implementation quantity expressed in base units
    pub fn value_in_base(&self, v: &Value) -> Option<(f64, Dim)> {
        let (x, fs) = quantity_parts(v)?;
        let (f, d) = self.base_of(&parse_factors(&fs))?;
        Some((x * f, d))
    }

    /// All ordered pairs of distinct-or-equal units with the same dimension (by primary name)
    pub fn same_dim_pairs(&self, include_self: bool) -> Vec<(String, String)> {
        let mut out = vec![];
        for a in self.units.values() {
            for b in self.units.values() {
                if a.dim == b.dim && (include_self || a.name != b.name) {
                    out.push((a.name.clone(), b.name.clone()));
                }
            }
        }
        out
    }
}

/// magnitudes of the remaining floating-point classes (thorough tiers): smallest subnormal, a
/// subnormal, the largest finite value, the first integer that is not representable
pub const M_EXTREME: [&str; 4] = ["5e-324", "1e-310", "1.7976931348623157e308", "9007199254740993"];
pub const M8: [&str; 8] = ["1", "0", "-2.5", "40.5", "0.1", "1e-7", "123456.789", "1e30"];
pub const M12: [&str; 12] = [
    "1", "0", "-2.5", "40.5", "0.1", "1e-7", "123456.789", "1e30", "NaN", "inf", "-inf", "-0",
];

/// A working session that is refreshed from a base session every `period` evaluations, so that
/// neither the bytecode nor the source-file table grow without bound.
pub struct Evaluator {
    base: Context,
    work: Context,
    count: usize,
    period: usize,
    pub evals: u64,
}

impl Evaluator {
    pub fn new(base: Context) -> Self {
        let work = base.clone();
        Evaluator {
            base,
            work,
            count: 0,
            period: 64,
            evals: 0,
        }
    }
    pub fn eval(&mut self, code: &str) -> RunResult {
        if self.count >= self.period {
            self.work = self.base.clone();
            self.count = 0;
        }
        self.count += 1;
        self.evals += 1;
        let r = run(&mut self.work, code);
        if r.panic().is_some() {
            // state after a panic is unspecified: start from a clean clone
            self.work = self.base.clone();
            self.count = 0;
        }
        r
    }
    /// raw (unsimplified) value of an expression, through a `let` + the hook
    pub fn raw(&mut self, expr: &str) -> Option<numbat::value::Value> {
        if self.count >= self.period {
            self.work = self.base.clone();
            self.count = 0;
        }
        self.count += 1;
        self.evals += 1;
        let r = run(&mut self.work, &format!("let vfq_raw_value = {expr}"));
        if r.panic().is_some() {
            self.work = self.base.clone();
            self.count = 0;
            return None;
        }
        if !r.is_ok() {
            return None;
        }
        self.work.verif_raw_global("vfq_raw_value")
    }
    pub fn ctx(&mut self) -> &mut Context {
        &mut self.work
    }
    pub fn reset(&mut self) {
        self.work = self.base.clone();
        self.count = 0;
    }
}
