use crate::common::*;
pub fn check(rep: &mut Report) {
    let mut ev = crate::units::Evaluator::new(all_ctx());
    let r = ev.eval("(1 * BTU) -> planck_energy");
    let shown = r.value().map(|v| v.pretty_print().to_string()).unwrap_or_default();
    println!("{:?} {:?}", shown, shown.as_bytes());
    let r2 = ev.eval(&format!("let zz = ({shown})"));
    println!("{:?}", r2.err_string());
    rep.states = 1; rep.transitions = 1;
}
pub fn replay(_c: &serde_json::Value) -> i32 { 2 }
