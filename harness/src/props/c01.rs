//! C01 — accepted programs never go wrong dimensionally at run time.
//!
//! Every program of the C02 space that the checker accepts (plus a family of composite constant
//! exponents) is executed; the dimension of every quantity it produces (result, bound global —
//! raw through the hook —, list elements) must equal the static type, and run-time failures must
//! be of the documented value-dependent kinds.  Both views come from the implementation.

use crate::common::*;
use crate::props::c02::build_cases;
use crate::props::dimprog::*;
use numbat::value::Value;
use numbat::{NumbatError, RuntimeErrorKind};
use serde_json::{Value as J, json};

fn documented_runtime_error(k: &RuntimeErrorKind) -> bool {
    use RuntimeErrorKind::*;
    match k {
        DivisionByZero | FactorialOfNegativeNumber | FactorialOfNonInteger | AssertFailed(_) | AssertEq2Failed(_) | AssertEq3Failed(_) | UserError(_) | EmptyList | DateParsingError(_) | UnknownTimezone(_) | DurationOutOfRange | DateTimeOutOfRange | DateFormattingError(_) | InvalidFormatSpecifiers(_) | InvalidTypeForFormatSpecifiers(_) | ChemicalElementNotFound(_) => true,
        QuantityError(q) => q.to_string().contains("Non-rational exponent"),
        _ => false,
    }
}

/// exponent expressions: X ::= r | X op X | -X  (depth <= 2; op in + - * / ^)
pub fn exponent_exprs(thorough: bool) -> Vec<String> {
    let atoms = ["2", "3", "(-1)", "0.5", "0.1", "0.2", "0.3", "(1/3)"];
    let mut d1: Vec<String> = atoms.iter().map(|s| s.to_string()).collect();
    let mut out = d1.clone();
    let mut d2 = vec![];
    for a in &d1 {
        d2.push(format!("(-{a})"));
        for b in &d1 {
            for op in ["+", "-", "*", "/", "^"] {
                d2.push(format!("({a} {op} {b})"));
            }
        }
    }
    out.extend(d2.iter().cloned());
    if thorough {
        for a in &d2 {
            for b in &atoms {
                for op in ["+", "*"] {
                    out.push(format!("({a} {op} {b})"));
                }
            }
        }
    }
    d1.clear();
    out
}

pub fn programs(w: &World, thorough: bool) -> Vec<String> {
    let mut v: Vec<String> = build_cases(w, thorough).into_iter().map(|c| c.code).collect();
    for base in ["m", "(m^2)", "(km/hour)", "N", "(2 m)", "sqrt(m)"] {
        for x in exponent_exprs(thorough) {
            v.push(format!("{base}^{x}"));
            v.push(format!("let vb = {base}^{x}\nvb"));
            v.push(format!("fn fe(x) = x^{x}\nfe({base})"));
            v.push(format!("[{base}^{x}, {base}^{x} * 2] |> head"));
        }
    }
    // a global redefined with another dimension, then read from inside a function
    {
        let at = atoms(thorough);
        for a in &at {
            for b in &at {
                let (a, b) = (a.render(), b.render());
                v.push(format!("let gq = 2 * {a}\nlet gq = 3 * {b}\nfn rd() = gq\nrd()"));
                v.push(format!("let gq = 2 * {a}\nlet gq = 3 * {b}\nfn rd2(t) = t + gq\nrd2(5 * {b})"));
                v.push(format!("let gq = 2 * {a}\nfn rd3() = gq\nlet gq = 3 * {b}\nrd3()"));
            }
        }
    }
    // where-clauses, generic structs, list functions and conditionals over every ordered atom pair
    {
        let at = atoms(thorough);
        for a in &at {
            for b in &at {
                let (a, b) = (a.render(), b.render());
                v.push(format!("fn fw1(x) = la + lb\n  where la = x * {a}\n    and lb = 2 la\nfw1(3 * {b})"));
                v.push(format!("fn fw2(x, y) = la / lb\n  where la = x^2\n    and lb = sqrt(y * y)\nfw2(3 * {a}, 2 * {b})"));
                v.push(format!("fn fw3<D: Dim>(x: D) -> D^2 = lc\n  where lc: D^2 = x * x\nfw3(3 * {a}) / (2 * {b})"));
                v.push(format!("fn fw4(x) = if x > 2 * {a} then x else la\n  where la = 3 * {a}\nfw4(5 * {b})"));
                v.push(format!("struct Gp<D: Dim> {{ g1: D, g2: D^2 }}\nlet gp = Gp {{ g1: 2 * {a}, g2: 3 * {a} * {a} }}\ngp.g2 / gp.g1 + 4 * {b}"));
                v.push(format!("struct Gq<D: Dim, E: Dim> {{ g1: D, g2: D / E }}\nGq {{ g1: 2 * {a}, g2: 3 * {a} / ({b}) }}.g2 * (5 * {b})"));
                v.push(format!("sum([2 * {a}, 3 * {b}])"));
                v.push(format!("map(sqr, [2 * {a}, 3 * {b}]) |> head"));
                v.push(format!("[2 * {a}, 3 * {b}] |> reverse |> head"));
                v.push(format!("maximum([2 * {a}, 3 * {b}]) - minimum([2 * {a}, 3 * {b}])"));
                v.push(format!("sort([2 * {a}, 3 * {b}]) |> head"));
                v.push(format!("foldl(_add, 0, [2 * {a}, 3 * {b}])"));
                v.push(format!("if 2 * {a} > 3 * {b} then 2 * {a} else 3 * {b}"));
                v.push(format!("let (vq) = 1\n[2 * {a}] |> map(fn_id, _)"));
            }
        }
        v.retain(|p| !p.contains("fn_id"));
    }
    // the last result (`ans`, `_`) after expressions whose type goes through unification (generic
    // calls, polymorphic zero, conditionals, lists), used with every atom
    {
        let at = atoms(thorough);
        for a in &at {
            let a = a.render();
            let firsts = [format!("sqrt(({a}) * ({a}))"), format!("abs(2 * {a})"), format!("dbl(2 * {a})"), format!("({a}) * 0 + 2 * {a}"), format!("0 + 2 * {a}"), format!("head([2 * {a}])"), format!("if true then 2 * {a} else 3 * {a}"), format!("2 * {a}"), format!("same2(2 * {a}, 3 * {a})"), format!("sq(2 * {a}) / (2 * {a})")];
            for b in &at {
                let b = b.render();
                for e in &firsts {
                    v.push(format!("{e}\nans + 3 * {b}"));
                    v.push(format!("{e}\n[_, 3 * {b}] |> head"));
                    v.push(format!("{e}\nlet vq = ans\nvq - 3 * {b}"));
                }
            }
        }
    }
    // struct fields and list elements
    for (a, b) in [("3 m", "2 s"), ("1 km + 2 m", "3 hour"), ("sq(2 m) / (1 m)", "1 / (2 Hz)")] {
        v.push(format!("Pair {{ p1: {a}, p2: {b} }}.p1"));
        v.push(format!("Pair {{ p2: {b}, p1: {a} }}.p2"));
        v.push(format!("let pq = Pair {{ p1: {a}, p2: {b} }}\npq.p1 / pq.p2"));
    }
    v.sort();
    v.dedup();
    v
}

pub fn judge(w: &World, code: &str) -> Result<&'static str, String> {
    let mut ctx = w.ctx.clone();
    let r = run_typed(&mut ctx, code);
    match &r.outcome {
        Outcome::Panic(p) => Err(format!("PANIC {} at {}", p.message, p.site())),
        Outcome::Err(e) => match &**e {
            NumbatError::RuntimeError(re) => {
                if documented_runtime_error(&re.kind) {
                    Ok("accepted, documented run-time error")
                } else {
                    Err(format!("is accepted by the checker but fails at run time with `{}`", re.kind))
                }
            }
            _ => Ok("not accepted"),
        },
        Outcome::Ok(v) => {
            let Some(sdv) = &r.static_dv else {
                return Ok("accepted, static type not a closed dimension");
            };
            let mut quantities: Vec<(String, Value)> = vec![];
            match v {
                Some(val @ Value::Quantity(_)) => quantities.push(("the result".into(), val.clone())),
                Some(Value::List(l)) => {
                    for (i, x) in l.iter().enumerate() {
                        quantities.push((format!("list element {i}"), x.clone()));
                    }
                }
                _ => {}
            }
            // raw values of the globals the program bound (they have the type of the final expression
            // only in the `let v = E ⏎ v` shapes)
            for name in ["va", "vb", "vq"] {
                if code.starts_with(&format!("let {name}")) || code.contains(&format!("\nlet {name}")) {
                    if let Some(raw) = ctx.verif_raw_global(name) {
                        quantities.push((format!("the raw value bound to `{name}`"), raw));
                    }
                }
            }
            if quantities.is_empty() {
                return Ok("accepted, no quantity produced");
            }
            for (what, q) in quantities {
                let Some(rdv) = w.runtime_dv(&q) else {
                    return Err(format!("{what} carries a unit with an unknown base unit: {q}"));
                };
                // numbat's zero is dimension-polymorphic at run time as well (`0`, `parse("0 kg"): Length`,
                // and the display of any zero result drops the unit; the suite pins this): a zero-valued
                // quantity fits every dimension
                let is_zero = quantity_parts(&q).map(|p| p.0 == 0.0).unwrap_or(false);
                if is_zero {
                    continue;
                }
                if &rdv != sdv {
                    // same base dimensions with exponents that differ only by floating-point rounding?
                    // (a base dimension missing on one side has exponent 0 there: `(2 m)^((0.1 - 0.3) + 0.2)`
                        // is statically a scalar and `m^(2^-55)` at run time)
                    let ex = |dv: &DV, k: &String| dv.get(k).map(|(n, d)| *n as f64 / *d as f64).unwrap_or(0.0);
                    let near = rdv.keys().chain(sdv.keys()).all(|k| (ex(&rdv, k) - ex(sdv, k)).abs() < 1e-9);
                    if near {
                        return Err(format!(
                            "CLASS:composite-constant-exponent-rounding {what} is {q}: the run-time exponent is the floating-point value of the constant exponent expression turned into a fraction ({}), the checker computed it exactly ({})",
                            dv_str(&rdv),
                            dv_str(sdv)
                        ));
                    }
                    return Err(format!(
                        "{what} is {q} with run-time dimension {} but the checker inferred {}",
                        dv_str(&rdv),
                        dv_str(sdv)
                    ));
                }
            }
            Ok("agree")
        }
    }
}

pub fn check(rep: &mut Report) {
    let w = match World::build() {
        Ok(w) => w,
        Err(e) => {
            rep.machinery_error(e);
            return;
        }
    };
    let progs = programs(&w, rep.tier == Tier::Thorough);
    let n = progs.len();
    let outs: Vec<Result<&'static str, String>> = par_map(n, || (), |_, i| judge(&w, &progs[i]));
    rep.states = n as u64;
    let mut counts: std::collections::BTreeMap<&'static str, u64> = Default::default();
    for (i, o) in outs.into_iter().enumerate() {
        rep.transitions += 1;
        rep.evaluations += 1;
        match o {
            Ok(v) => {
                *counts.entry(v).or_default() += 1;
                if v != "not accepted" {
                    rep.validated += 1;
                }
                if v == "agree" {
                    rep.nontrivial_case(&progs[i]);
                    if i % 2003 == 7 {
                        rep.sample(json!({"program": progs[i], "verdict": v}));
                    }
                }
                rep.outcome(v);
            }
            Err(e) => {
                if e.starts_with("PANIC") {
                    let site = e.split(" at ").last().unwrap_or("").to_string();
                    rep.violation(format!("callsite:{site}"), format!("`{}`: {e}", progs[i].replace('\n', "⏎")), json!({"code": progs[i]}));
                } else if let Some(rest) = e.strip_prefix("CLASS:") {
                    let class = rest.split(' ').next().unwrap_or("");
                    rep.violation(format!("class:{class}"), format!("`{}` {}", progs[i].replace('\n', "⏎"), &rest[class.len() + 1..]), json!({"code": progs[i]}));
                } else {
                    rep.violation(format!("input:{}", progs[i].replace('\n', "⏎")), format!("`{}` {e}", progs[i].replace('\n', "⏎")), json!({"code": progs[i]}));
                }
            }
        }
    }
    rep.set("verdicts", json!(counts));
    rep.set("programs", json!(n));
    rep.rule = "every program of the C02 space (expressions of depth <= 2 over the collision alphabet, annotated lets, inferred/annotated/generic functions with call sites, unit and dimension definitions) plus base^X for every composite constant exponent expression X of depth <= 2 over {2,3,-1,0.5,0.1,0.2,0.3,1/3}, as result, bound global, function body and list element; where-clauses, generic structs, list functions and conditionals over every ordered atom pair; the last result (ans, _) after ten first-statement shapes, used with every atom; for every program the checker accepts: run-time dimension of every produced quantity == static type, run-time errors only of the documented kinds; non-trivial = accepted programs whose quantities were compared".into();
    rep.assumptions = vec![
        "both the static and the dynamic view come from the implementation; the base-unit -> base-dimension map comes from the unit registry".into(),
        "programs whose static type is polymorphic or not a dimension are only checked for run-time error kinds".into(),
        "quantity_cast and second base units of an existing dimension are outside the property".into(),
    ];
}

pub fn replay(case: &J) -> i32 {
    let w = World::build().unwrap();
    let code = case["code"].as_str().unwrap_or("");
    println!("{code}");
    match judge(&w, code) {
        Ok(v) => {
            println!("{v}: no violation on this tree");
            0
        }
        Err(e) => {
            println!("VIOLATION reproduced: {e}");
            1
        }
    }
}
