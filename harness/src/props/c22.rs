//! C22 — the command-line tool reports success and failure faithfully.
//!
//! Every line sequence up to length n over a 12-line alphabet is run through the real `numbat`
//! binary as a file, as `-e` arguments and as file + `-e` (every split); the in-process library run
//! of the same text is the reference.

use crate::common::*;
use numbat::pretty_print::FormatOptions;
use numbat::resolver::CodeSource;
use numbat::{Context, InterpreterSettings};
use serde_json::{Value as J, json};
use std::process::{Command, Stdio};
use std::sync::{Arc, Mutex};

pub const CLI: &str = "/verif/target/cli/debug/numbat";

pub const LINES: [&str; 12] = [
    "1 + 1",
    "print(\"hello\")",
    "let x = 2 m",
    "x * 3",
    "let = )",
    "let meter = 1",
    "1 m + 1 s",
    "1 / 0",
    "assert(1 == 2)",
    "use nonexistent::module",
    "print(x)",
    "\"str {1+1}\"",
];

#[derive(Debug, Clone, PartialEq)]
struct Expected {
    ok: bool,
    stdout: String,
}

/// library reference for a list of inputs processed in order, stopping at the first failure
fn reference(base: &Context, inputs: &[String]) -> Expected {
    let mut ctx = base.clone();
    let mut stdout = String::new();
    for input in inputs {
        let printed = Arc::new(Mutex::new(Vec::<String>::new()));
        let p2 = printed.clone();
        let mut settings = InterpreterSettings {
            print_fn: Box::new(move |m: &numbat::markup::Markup| p2.lock().unwrap().push(m.to_string())),
        };
        match ctx.interpret_with_settings(&mut settings, input, CodeSource::Text) {
            Ok((stmts, res)) => {
                for p in printed.lock().unwrap().iter() {
                    stdout.push_str(p);
                    stdout.push('\n');
                }
                let m = res.to_markup(stmts.last(), ctx.dimension_registry(), false, false, &FormatOptions::default());
                stdout.push_str(&m.to_string());
            }
            Err(_) => return Expected { ok: false, stdout },
        }
    }
    Expected { ok: true, stdout }
}

struct RunOut {
    status: Option<i32>,
    stdout: String,
    stderr: String,
}

fn run_cli(file: Option<&str>, exprs: &[&str], id: usize) -> Result<RunOut, String> {
    let work = format!("{VERIF_ROOT}/work/c22_{}", std::process::id());
    let home = format!("{work}/home");
    std::fs::create_dir_all(&home).map_err(|e| e.to_string())?;
    let mut cmd = Command::new(CLI);
    cmd.arg("--no-config").arg("--no-init");
    let path = format!("{work}/in_{id}.nbt");
    if let Some(text) = file {
        std::fs::write(&path, text).map_err(|e| e.to_string())?;
        cmd.arg(&path);
    }
    for e in exprs {
        cmd.arg("-e").arg(e);
    }
    cmd.env_clear()
        .env("HOME", &home)
        .env("XDG_CONFIG_HOME", format!("{home}/config"))
        .env("XDG_DATA_HOME", format!("{home}/data"))
        .env("TZ", "UTC")
        .env("NO_COLOR", "1")
        .env("PATH", "/usr/bin:/bin")
        .stdin(Stdio::null())
        .stdout(Stdio::piped())
        .stderr(Stdio::piped());
    let out = cmd.output().map_err(|e| format!("cannot run {CLI}: {e}"))?;
    let _ = std::fs::remove_file(&path);
    Ok(RunOut {
        status: out.status.code(),
        stdout: String::from_utf8_lossy(&out.stdout).to_string(),
        stderr: String::from_utf8_lossy(&out.stderr).to_string(),
    })
}

fn normalise_stderr(s: &str) -> String {
    // the source label line (`┌─ <input:1>:1:5` / `┌─ /path/in_3.nbt:1:5`) may differ
    s.lines()
        .map(|l| {
            if l.contains("┌─") {
                "  ┌─ <label>".to_string()
            } else if let Some(i) = l.find("\tat ") {
                // backtrace frame: `at <fn> - <label>:line:col`
                match l.rfind(" - ") {
                    Some(j) if j > i => {
                        let pos: String = l[j + 3..].rsplitn(3, ':').take(2).collect::<Vec<_>>().join(":");
                        format!("{} - <label>:{}", &l[..j], pos)
                    }
                    _ => l.to_string(),
                }
            } else {
                l.to_string()
            }
        })
        .collect::<Vec<_>>()
        .join("\n")
}

fn judge(base: &Context, seq: &[usize], id: usize) -> Result<(String, u64), String> {
    let lines: Vec<&str> = seq.iter().map(|i| LINES[*i]).collect();
    let joined = lines.join("\n");
    let mut runs = 0u64;
    // (a) file, (b) -e ... -e
    let want = reference(base, &[joined.clone()]);
    let f = run_cli(Some(&joined), &[], id * 8)?;
    let e = run_cli(None, &lines, id * 8 + 1)?;
    runs += 2;
    let check = |what: &str, r: &RunOut, want: &Expected| -> Result<(), String> {
        let code = r.status.ok_or_else(|| format!("{what}: killed by a signal; stderr: {}", r.stderr.chars().take(300).collect::<String>()))?;
        if want.ok {
            if code != 0 {
                return Err(format!("{what}: every input succeeds in the library but the exit status is {code}; stderr: {}", r.stderr.chars().take(200).collect::<String>()));
            }
            if r.stdout != want.stdout {
                return Err(format!("{what}: stdout is {:?}, expected {:?}", r.stdout, want.stdout));
            }
            if !r.stderr.is_empty() {
                return Err(format!("{what}: success but stderr is not empty: {:?}", r.stderr));
            }
        } else {
            if code == 0 {
                return Err(format!("{what}: an input fails in the library but the exit status is 0 (stdout {:?})", r.stdout));
            }
            if r.stderr.trim().is_empty() {
                return Err(format!("{what}: failure but nothing on stderr"));
            }
            if r.stdout.contains("error") && !want.stdout.contains("error") {
                return Err(format!("{what}: diagnostics on stdout: {:?}", r.stdout));
            }
            // output of the inputs that completed before the failing one must be there; output of
            // the failing input itself may or may not have been flushed (unspecified)
            if !r.stdout.starts_with(&want.stdout) {
                return Err(format!("{what}: stdout {:?} does not start with the output of the completed inputs {:?}", r.stdout, want.stdout));
            }
        }
        Ok(())
    };
    check("file", &f, &want)?;
    check("-e", &e, &want)?;
    // -e behaves like a file with the same lines
    if f.status != e.status || f.stdout != e.stdout || normalise_stderr(&f.stderr) != normalise_stderr(&e.stderr) {
        return Err(format!(
            "file run and -e run differ: status {:?}/{:?}, stdout {:?}/{:?}, stderr {:?}/{:?}",
            f.status, e.status, f.stdout, e.stdout, normalise_stderr(&f.stderr), normalise_stderr(&e.stderr)
        ));
    }
    // (c) file + -e at every split
    for k in 1..lines.len() {
        let file_part = lines[..k].join("\n");
        let want = reference(base, &[file_part.clone(), lines[k..].join("\n")]);
        let r = run_cli(Some(&file_part), &lines[k..], id * 8 + 2 + k)?;
        runs += 1;
        check(&format!("file({k} lines) + -e"), &r, &want)?;
    }
    Ok((format!("{}:{:?}", want.ok, f.status), runs))
}

pub fn check(rep: &mut Report) {
    if !std::path::Path::new(CLI).exists() {
        rep.machinery_error(format!("{CLI} is missing (./check builds it; run ./setup.sh)"));
        return;
    }
    let base = prelude_ctx();
    let n = rep.tier.pick(2, 3);
    let mut seqs: Vec<Vec<usize>> = vec![];
    fn rec(cur: &mut Vec<usize>, n: usize, out: &mut Vec<Vec<usize>>) {
        if !cur.is_empty() {
            out.push(cur.clone());
        }
        if cur.len() == n {
            return;
        }
        for i in 0..LINES.len() {
            cur.push(i);
            rec(cur, n, out);
            cur.pop();
        }
    }
    rec(&mut vec![], n, &mut seqs);
    let outs: Vec<Result<(String, u64), String>> = par_map(seqs.len(), || (), |_, i| {
        match guarded(|| judge(&base, &seqs[i], i)) {
            Ok(r) => r,
            Err(p) => Err(format!("machinery: reference panicked: {} at {}", p.message, p.site())),
        }
    });
    rep.states = seqs.len() as u64;
    let (mut okc, mut failc) = (0u64, 0u64);
    for (i, o) in outs.into_iter().enumerate() {
        let text: Vec<&str> = seqs[i].iter().map(|k| LINES[*k]).collect();
        match o {
            Ok((s, runs)) => {
                rep.transitions += runs;
                rep.evaluations += runs;
                rep.validated += runs;
                rep.outcome(&s);
                if s.starts_with("true") { okc += 1 } else { failc += 1 }
                if text.len() > 1 {
                    rep.nontrivial_case(&text.join("|"));
                }
                if i % 211 == 13 {
                    rep.sample(json!({"lines": text, "library_ok:exit_status": s}));
                }
            }
            Err(e) => {
                if e.starts_with("machinery") || e.starts_with("cannot run") {
                    rep.machinery_error(e);
                } else {
                    rep.violation(format!("lines:{}", text.join("⏎")), format!("lines {:?}: {e}", text), json!({"seq": seqs[i], "lines": text}));
                }
            }
        }
    }
    let _ = std::fs::remove_dir_all(format!("{VERIF_ROOT}/work/c22_{}", std::process::id()));
    rep.set("line_alphabet", json!(LINES));
    rep.set("max_sequence_length", json!(n));
    rep.set("sequences_all_ok", json!(okc));
    rep.set("sequences_with_a_failure", json!(failc));
    if okc == 0 || failc == 0 {
        rep.machinery_error("vacuous: no succeeding or no failing sequence");
    }
    rep.rule = "every sequence of up to n lines over a 12-line alphabet (succeeding lines, use of earlier definitions, and a failing line of every stage) run through the real numbat binary as a file, as -e arguments, and as file + -e at every split; reference = the in-process library run of the same text; states = sequences, transitions = processes; non-trivial = sequences of 2+ lines".into();
    rep.assumptions = vec![
        "no currency identifiers (would trigger the exchange-rate fetch); HOME/XDG point to an empty directory; --no-config --no-init; no tty".into(),
        "whether values printed by an input that later fails reach stdout is unspecified (the CLI buffers them)".into(),
    ];
}

pub fn replay(case: &J) -> i32 {
    let seq: Vec<usize> = case["seq"].as_array().map(|a| a.iter().map(|x| x.as_u64().unwrap() as usize).collect()).unwrap_or_default();
    match judge(&prelude_ctx(), &seq, 0) {
        Ok((s, _)) => {
            println!("{s}\nno violation on this tree");
            0
        }
        Err(e) => {
            println!("VIOLATION reproduced: {e}");
            1
        }
    }
}
