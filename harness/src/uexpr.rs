//! Unit-expression trees with a reference evaluator ("exact dimensional arithmetic from the unit
//! definitions"), used by the arithmetic / conversion / simplification sweeps.

use crate::units::*;

#[derive(Clone, Debug, PartialEq)]
pub enum UExpr {
    /// magnitude text, optional long prefix text, unit alias text
    Leaf {
        mag: &'static str,
        prefix: Option<(&'static str, Pfx)>,
        alias: String,
        unit: String,
    },
    Bin(char, Box<UExpr>, Box<UExpr>), // + - * /
    Pow(Box<UExpr>, i128, i128),
}

#[derive(Clone, Debug)]
pub struct RefVal {
    /// value in base units
    pub v: f64,
    pub dim: Dim,
    /// false if a + or − node lost (almost) all significant digits: comparison not meaningful
    pub well_conditioned: bool,
}

impl UExpr {
    pub fn leaf(mag: &'static str, prefix: Option<(&'static str, Pfx)>, alias: &str, unit: &str) -> UExpr {
        UExpr::Leaf {
            mag,
            prefix,
            alias: alias.to_string(),
            unit: unit.to_string(),
        }
    }

    /// numbat source with full parenthesisation
    pub fn render(&self) -> String {
        match self {
            UExpr::Leaf { mag, prefix, alias, .. } => {
                let p = prefix.map(|p| p.0).unwrap_or("");
                if mag.starts_with('-') {
                    format!("(({mag}) * {p}{alias})")
                } else {
                    format!("({mag} * {p}{alias})")
                }
            }
            UExpr::Bin(op, a, b) => format!("({} {} {})", a.render(), op, b.render()),
            UExpr::Pow(a, n, d) => {
                if *d == 1 {
                    if *n < 0 {
                        format!("({}^({}))", a.render(), n)
                    } else {
                        format!("({}^{})", a.render(), n)
                    }
                } else {
                    format!("({}^({}/{}))", a.render(), n, d)
                }
            }
        }
    }

    pub fn size(&self) -> usize {
        match self {
            UExpr::Leaf { .. } => 1,
            UExpr::Bin(_, a, b) => 1 + a.size() + b.size(),
            UExpr::Pow(a, _, _) => 1 + a.size(),
        }
    }

    /// Reference evaluation. `None` = not well-formed (dimension mismatch in + / −, division by
    /// zero, power of a negative number with a fractional exponent, ...), i.e. outside the space.
    pub fn eval(&self, defs: &UnitDefs) -> Option<RefVal> {
        match self {
            UExpr::Leaf { mag, prefix, unit, .. } => {
                let u = defs.units.get(unit)?;
                let m: f64 = mag.parse().ok()?;
                let pf = prefix.map(|p| p.1.factor()).unwrap_or(1.0);
                Some(RefVal {
                    v: m * pf * u.base_factor,
                    dim: u.dim.clone(),
                    well_conditioned: true,
                })
            }
            UExpr::Bin(op, a, b) => {
                let x = a.eval(defs)?;
                let y = b.eval(defs)?;
                match op {
                    '+' | '-' => {
                        if x.dim != y.dim {
                            return None;
                        }
                        let v = if *op == '+' { x.v + y.v } else { x.v - y.v };
                        let lost = v.abs() < 1e-6 * (x.v.abs() + y.v.abs()) && v != 0.0;
                        // exact zero from equal operands is fine to compare with an absolute bound
                        Some(RefVal {
                            v,
                            dim: x.dim,
                            well_conditioned: x.well_conditioned && y.well_conditioned && !lost && !(v == 0.0 && x.v != 0.0),
                        })
                    }
                    '*' => Some(RefVal {
                        v: x.v * y.v,
                        dim: dim_mul(&x.dim, &y.dim),
                        well_conditioned: x.well_conditioned && y.well_conditioned,
                    }),
                    '/' => {
                        if y.v == 0.0 {
                            return None;
                        }
                        Some(RefVal {
                            v: x.v / y.v,
                            dim: dim_mul(&x.dim, &dim_inv(&y.dim)),
                            well_conditioned: x.well_conditioned && y.well_conditioned,
                        })
                    }
                    _ => None,
                }
            }
            UExpr::Pow(a, n, d) => {
                let x = a.eval(defs)?;
                if x.v < 0.0 && *d != 1 {
                    return None;
                }
                if x.v == 0.0 && *n < 0 {
                    return None;
                }
                Some(RefVal {
                    v: powq(x.v, *n, *d),
                    dim: dim_pow(&x.dim, *n, *d),
                    well_conditioned: x.well_conditioned,
                })
            }
        }
    }
}

/// Dim of an implementation quantity's *base representation* (factor names are base units)
pub fn dim_from_factors(fs: &crate::common::Factors) -> Dim {
    let mut d = Dim::new();
    for (n, _p, a, b) in fs {
        let mut one = Dim::new();
        one.insert(n.clone(), (*a, *b));
        d = dim_mul(&d, &one);
    }
    d
}
