#!/bin/bash
# Re-apply every kept seeded change to the current /repo tree and expect its check to exit 1.
# usage: notes/seed_regress.sh [seed ...]     (default: all of /verif/seeded)
# /repo must be clean; it is restored after every seed (git checkout -- .).
set -u
cd /verif
if [ -n "$(git -C /repo status --porcelain)" ]; then echo "/repo is not clean"; exit 2; fi
seeds=("$@"); [ ${#seeds[@]} -eq 0 ] && seeds=($(ls seeded))
fail=0
for s in "${seeds[@]}"; do
  id=${s%%_*}
  # the check that detects the seed is recorded in meta.json (usually the seed's own property)
  det=$(python3 -c "import json,re,sys; m=json.load(open('/verif/seeded/$s/meta.json')); c=m.get('detection',{}).get('check',''); r=re.match(r'(C\\d\\d)', c); print(r.group(1) if r else '')" 2>/dev/null)
  [ -n "$det" ] && id=$det
  p=seeded/$s/patch.diff
  if ! git -C /repo apply --check "$PWD/$p" 2>/dev/null; then
    if git -C /repo apply -3 "$PWD/$p" >/dev/null 2>&1 && [ -z "$(git -C /repo diff --name-only --diff-filter=U)" ]; then
      git -C /repo reset -q; how="applied with 3-way merge"
    else
      git -C /repo checkout -q -- . ; git -C /repo reset -q; echo "$s: patch no longer applies"; fail=1; continue
    fi
  else
    git -C /repo apply "$PWD/$p"; how="applied"
  fi
  out=$(./check "$id" quick 2>&1); rc=$?
  git -C /repo checkout -q -- .
  n=$(echo "$out" | grep -c '^VIOLATION')
  echo "$s: $how; ./check $id quick -> exit $rc, $n VIOLATION lines"
  [ $rc -eq 1 ] || fail=1
done
# rebuild the harness against the restored tree
./check C24 quick >/dev/null 2>&1
exit $fail
