#!/bin/bash
# seed_test.sh <patch> <ID> [tier] : apply a seeded change to /repo, run ./check, undo it straight afterwards.
set -u
P=$1; ID=$2; TIER=${3:-quick}
cd /repo && git apply "$P" || { echo "patch does not apply"; exit 2; }
cd /verif && ./check $ID $TIER > /verif/work/seed_$ID.log 2>&1; RC=$?
git -C /repo checkout -- .
echo "exit=$RC"; grep -c "^VIOLATION" /verif/work/seed_$ID.log; grep "^VIOLATION" /verif/work/seed_$ID.log | head -3 | cut -c1-400; tail -1 /verif/work/seed_$ID.log
