#!/usr/bin/env python3
"""Prints the prompt handed to an independent sub-agent for seeding a property-breaking change.
Usage: mk_agent_prompt.py <ID> <tag>   (worktree /tmp/wt/<ID>_<tag>, output /tmp/wt_out/<ID>_<tag>)"""
import json, sys
pid, tag = sys.argv[1], sys.argv[2]
p = [json.loads(l) for l in open('/verif/properties.jsonl') if json.loads(l)['id'] == pid][0]
wt = f"/tmp/wt/{pid}_{tag}"
import glob, os
prior = []
for d in sorted(glob.glob(f"/verif/seeded/{pid}_*")):
    try:
        prior.append(json.load(open(d + "/meta.json"))["summary"])
    except Exception:
        pass
prior_text = ""
if prior:
    prior_text = "\n\nALREADY USED (earlier injectors picked these; choose a DIFFERENT mechanism at a different code site, ideally exercising another part of the property's scope):\n" + "\n".join(f"- {x}" for x in prior)
out = f"/tmp/wt_out/{pid}_{tag}"
print(f"""You are helping to evaluate a verification framework for the open-source project sharkdp/numbat (a statically typed scientific-calculator language with physical dimensions as types, written in Rust). Your job is to act as a *realistic bug injector*: produce ONE small source change to numbat that breaks the semantic property below, while the project still compiles and its existing test suite still passes.

PROPERTY ({pid}): {p['title']}
Statement: {p['statement']}
Scope: {p['quantifier']['text']}
Code the property is anchored in: {', '.join(p['anchors']['files'])}

WORKING COPY: a scratch git worktree of the repository is at {wt} (you must work ONLY there; never touch /repo or /verif, and do not read anything under /verif). The sandbox has no network; use `--offline` with cargo. Build output goes to {wt}/target (default).

WHAT I NEED:
1. A change (a few lines, in numbat's Rust sources or its standard-library .nbt modules) that makes the property FALSE for some inputs, but that needs something *specific* to manifest: a particular multi-step sequence of operations, an unusual input or value, a particular combination of units/prefixes/modules, or two cooperating sites that each look fine alone. Do NOT make a change that ordinary use would expose at once (e.g. breaking `1 m + 1 m`), and do not make one that merely panics on everything. Think of a plausible slip a maintainer could make in a refactoring: an off-by-one, a swapped argument, a dropped restore/reset, a wrong tie-break, a cache keyed too coarsely, a condition that is right except in a corner.
2. The existing tests must still pass with your change: run `cd {wt} && cargo test --workspace --no-fail-fast --offline 2>&1 | grep -E "^test result|FAILED|failed"` and confirm every line says ok with 0 failed (243 tests in total across the result lines). If a test fails, pick a different change (do not edit tests or snapshots).
3. A demonstration that FAILS with your change and PASSES without it: preferably a numbat script plus expected output run through the CLI (`cargo run --offline -q -p numbat-cli -- --no-config --no-init -e '<expr>'` or a file), or a small Rust test file. Verify both directions yourself (to compare, save your change with `git diff > /tmp/wt_out/<your dir>/p.diff`, undo it with `git apply -R`, re-apply it with `git apply`; do NOT use `git stash`: the stash is shared between worktrees and other people work in sibling worktrees).
4. Write to {out}/ (create it): `patch.diff` (output of `git -C {wt} diff`), the demonstration (`demo.sh` that exits 0 when the property holds and non-zero when it is broken, run from the worktree root — it may call cargo), and `meta.json` with keys: property ("{pid}"), summary (one sentence), needs (what specific input/sequence it takes to manifest), files_changed, tests_pass (true/false as you observed), demo_fails_with_patch (true/false), demo_passes_without_patch (true/false).
5. Leave the worktree with your change applied (uncommitted). Do not commit.

{prior_text}

Keep the change minimal and realistic. Report back in a few lines: what you changed, why the tests do not notice, and how the demo shows the breakage.""")
