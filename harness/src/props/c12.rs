//! C12 — addition commutes, subtraction anti-commutes, units included.

use crate::common::*;
use crate::units::*;
use serde_json::{Value as J, json};

pub fn program(a: &str, b: &str) -> String {
    format!(
        "let qa = {a}\nlet qb = {b}\nlet s1 = qa + qb\nlet s2 = qb + qa\nlet d1 = qa - qb\nlet d2 = -(qb - qa)\nprint(s1)\nprint(s2)\nprint(d1)\nprint(d2)"
    )
}

#[derive(Debug, Clone)]
pub struct Obs {
    pub raw: Vec<(f64, Factors)>, // qa qb s1 s2 d1 d2
    pub shown: Vec<String>,       // s1 s2 d1 d2
}

pub fn eval_case(ev: &mut Evaluator, a: &str, b: &str) -> Result<Obs, String> {
    let r = ev.eval(&program(a, b));
    let res = (|| {
        if !r.is_ok() {
            return Err(r.err_string().unwrap_or_default());
        }
        let mut raw = vec![];
        for n in ["qa", "qb", "s1", "s2", "d1", "d2"] {
            let v = ev
                .ctx()
                .verif_raw_global(n)
                .ok_or_else(|| format!("no raw value for {n}"))?;
            raw.push(quantity_parts(&v).ok_or_else(|| format!("{n} is not a quantity"))?);
        }
        if r.printed.len() != 4 {
            return Err(format!("expected 4 printed lines, got {}", r.printed.len()));
        }
        Ok(Obs {
            raw,
            shown: r.printed.clone(),
        })
    })();
    ev.reset();
    res
}

fn norm_zero(s: &str) -> String {
    // "-0 m" and "0 m" show the same value
    if let Some(rest) = s.strip_prefix("-0") {
        if rest.is_empty() || rest.starts_with(' ') {
            return format!("0{rest}");
        }
    }
    s.to_string()
}

/// Judge one observation. `Err((kind, text))`.
pub fn judge(defs: &UnitDefs, o: &Obs) -> Result<bool, String> {
    let base = |i: usize| -> Option<(f64, Dim, f64)> {
        let (x, fs) = &o.raw[i];
        let (f, d) = defs.base_of(&parse_factors(fs))?;
        Some((x * f, d, f))
    };
    let (a, da, fa) = base(0).ok_or("unknown unit in qa")?;
    let (b, db, fb) = base(1).ok_or("unknown unit in qb")?;
    if da != db {
        return Err("machinery: operands of different dimension".into());
    }
    let scale = a.abs() + b.abs();
    let tol = 1e-9 * scale + f64::MIN_POSITIVE;
    let names = ["a+b", "b+a", "a-b", "-(b-a)"];
    let expect = [a + b, a + b, a - b, a - b];
    for k in 0..4 {
        let (v, d, _) = base(2 + k).ok_or("unknown unit in a result")?;
        if d != da {
            return Err(format!(
                "{} has dimension {} but the operands have {}",
                names[k],
                dim_string(&d),
                dim_string(&da)
            ));
        }
        // overflow to infinity (operands near f64::MAX in a unit larger than the base unit) is not
        // specified by the property: the numeric comparison is skipped, the order laws still apply
        if !expect[k].is_finite() || !v.is_finite() || !scale.is_finite() {
            continue;
        }
        // a subnormal operand or result carries fewer than 53 significant bits in whatever unit it
        // is held, so the closeness of the sum is not specified either (order laws still apply)
        let near_subnormal = |x: f64| x != 0.0 && x.abs() < f64::MIN_POSITIVE * 1e16;
        if near_subnormal(o.raw[0].0) || near_subnormal(o.raw[1].0) || near_subnormal(o.raw[2 + k].0) {
            continue;
        }
        if !((v - expect[k]).abs() <= tol) {
            return Err(format!(
                "{} = {v:e} in base units, dimensional arithmetic gives {:e}",
                names[k], expect[k]
            ));
        }
    }
    // display clause: units differ in size, not both operands zero
    let both_zero = o.raw[0].0 == 0.0 && o.raw[1].0 == 0.0;
    let differ = !close(fa, fb, 1e-12);
    if differ && !both_zero {
        if norm_zero(&o.shown[0]) != norm_zero(&o.shown[1]) {
            return Err(format!(
                "a+b is displayed as `{}` but b+a as `{}`",
                o.shown[0], o.shown[1]
            ));
        }
        if norm_zero(&o.shown[2]) != norm_zero(&o.shown[3]) {
            return Err(format!(
                "a-b is displayed as `{}` but -(b-a) as `{}`",
                o.shown[2], o.shown[3]
            ));
        }
    }
    Ok(differ && !both_zero)
}

pub fn check(rep: &mut Report) {
    let base = all_ctx();
    let defs = match UnitDefs::build(&base) {
        Ok(d) => d,
        Err(e) => {
            rep.machinery_error(e);
            return;
        }
    };
    let pairs = defs.same_dim_pairs(true);
    let mag_pairs: Vec<(&str, &str)> = match rep.tier {
        Tier::Quick => {
            let mut v: Vec<(&str, &str)> = M8.iter().map(|x| (*x, *x)).collect();
            v.extend([
                ("1", "-2.5"),
                ("0", "1"),
                ("1", "0"),
                ("40.5", "0.1"),
                ("-2.5", "1e-7"),
                ("0", "-2.5"),
                ("123456.789", "1"),
            ]);
            v
        }
        Tier::Thorough => {
            let mut v = vec![];
            for x in M8 {
                for y in M8 {
                    v.push((x, y));
                }
            }
            // the remaining floating-point classes, with themselves and with 1
            for x in M_EXTREME {
                v.push((x, x));
                v.push((x, "1"));
                v.push(("1", x));
            }
            v
        }
    };
    let mut cases: Vec<(String, String)> = vec![];
    for (ua, ub) in &pairs {
        for (x, y) in &mag_pairs {
            cases.push((format!("({x} * {ua})"), format!("({y} * {ub})")));
        }
        // prefixed operands
        let ia = &defs.units[ua];
        let ib = &defs.units[ub];
        let la = ia.aliases.iter().find(|(_, _, long)| *long).map(|a| a.0.clone());
        let lb = ib.aliases.iter().find(|(_, _, long)| *long).map(|a| a.0.clone());
        if let (true, Some(la)) = (ia.metric, &la) {
            cases.push((format!("(40.5 * kilo{la})"), format!("(0.1 * {ub})")));
            cases.push((format!("(1 * milli{la})"), format!("(-2.5 * {ub})")));
            if let (true, Some(lb)) = (ib.metric, &lb) {
                cases.push((format!("(40.5 * kilo{la})"), format!("(0.1 * milli{lb})")));
            }
        }
        if let (true, Some(la)) = (ia.binary, &la) {
            cases.push((format!("(40.5 * mebi{la})"), format!("(0.1 * {ub})")));
        }
    }
    // every ordered pair of prefixes on the same unit: all metric prefixes on metre and second, all
    // metric and binary prefixes on bit and byte (the operands differ only by their prefix)
    {
        let table = numbat::verif::prefix_table();
        let metric: Vec<String> = std::iter::once(String::new()).chain(table.iter().filter(|(_, _, k, _)| *k == 'M').map(|(l, _, _, _)| l.to_string())).collect();
        let mut both = metric.clone();
        both.extend(table.iter().filter(|(_, _, k, _)| *k == 'B').map(|(l, _, _, _)| l.to_string()));
        for (unit, prefixes) in [("metre", &metric), ("second", &metric), ("bit", &both), ("byte", &both)] {
            for p1 in prefixes.iter() {
                for p2 in prefixes.iter() {
                    if p1 != p2 {
                        cases.push((format!("(1 * {p1}{unit})"), format!("(2.5 * {p2}{unit})")));
                    }
                }
            }
        }
    }
    let n = cases.len();
    let outs: Vec<(Result<Obs, String>, Result<bool, String>)> = par_map(
        n,
        || Evaluator::new(base.clone()),
        |ev, i| {
            let (a, b) = &cases[i];
            let o = eval_case(ev, a, b);
            let j = match &o {
                Ok(o) => judge(&defs, o),
                Err(e) => Err(e.clone()),
            };
            (o, j)
        },
    );
    rep.states = n as u64;
    rep.evaluations = n as u64;
    for (i, (o, j)) in outs.into_iter().enumerate() {
        let (a, b) = &cases[i];
        rep.transitions += 4;
        match (o, j) {
            (Err(e), _) => {
                if e.starts_with("PANIC") {
                    rep.violation(
                        format!("input:{a} + {b}"),
                        format!("{a} ± {b} panicked: {e}"),
                        json!({"a": a, "b": b}),
                    );
                } else {
                    rep.machinery_error(format!("case {a} ± {b} failed to evaluate: {e}"));
                }
            }
            (Ok(o), Err(why)) => {
                if why.starts_with("machinery") {
                    rep.machinery_error(format!("{a} ± {b}: {why}"));
                } else {
                    rep.violation(
                        format!("input:{a} + {b}"),
                        format!("a = {a}, b = {b}: {why}"),
                        json!({"a": a, "b": b, "shown": o.shown}),
                    );
                }
            }
            (Ok(o), Ok(display_clause)) => {
                rep.validated += 1;
                rep.outcome(&o.shown.join("|"));
                if display_clause {
                    rep.nontrivial_case(&format!("{a}|{b}"));
                    if rep.samples.len() < 5 && i % 977 == 3 {
                        rep.sample(json!({"a": a, "b": b, "shown [a+b, b+a, a-b, -(b-a)]": o.shown}));
                    }
                }
            }
        }
    }

    // three-operand sums in every order, per dimension over a subset of units
    let mut by_dim: std::collections::BTreeMap<String, Vec<String>> = Default::default();
    for u in defs.units.values() {
        by_dim.entry(dim_string(&u.dim)).or_default().push(u.name.clone());
    }
    let per_dim = rep.tier.pick(4, 7);
    let mut triples: Vec<[String; 3]> = vec![];
    for (_, us) in &by_dim {
        // deterministic spread over the dimension's units, sorted by size
        let mut us: Vec<&String> = us.iter().collect();
        us.sort_by(|a, b| {
            defs.units[*a]
                .base_factor
                .partial_cmp(&defs.units[*b].base_factor)
                .unwrap()
        });
        let pick: Vec<&String> = if us.len() <= per_dim {
            us.clone()
        } else {
            (0..per_dim).map(|i| us[i * (us.len() - 1) / (per_dim - 1)]).collect()
        };
        for a in &pick {
            for b in &pick {
                for c in &pick {
                    if a < b && b < c {
                        triples.push([(*a).clone(), (*b).clone(), (*c).clone()]);
                    }
                }
            }
        }
    }
    let mags3 = [["1", "40.5", "0.1"], ["-2.5", "1", "123456.789"], ["0", "1", "-2.5"]];
    let perms = [[0, 1, 2], [0, 2, 1], [1, 0, 2], [1, 2, 0], [2, 0, 1], [2, 1, 0]];
    let mut t_cases = vec![];
    for t in &triples {
        for m in &mags3 {
            t_cases.push((t.clone(), *m));
        }
    }
    let t_out: Vec<Result<Vec<f64>, String>> = par_map(
        t_cases.len(),
        || Evaluator::new(base.clone()),
        |ev, i| {
            let (t, m) = &t_cases[i];
            let ops: Vec<String> = (0..3).map(|k| format!("({} * {})", m[k], t[k])).collect();
            let mut prog = String::new();
            for (pi, p) in perms.iter().enumerate() {
                prog.push_str(&format!(
                    "let t{pi} = {} + {} + {}\n",
                    ops[p[0]], ops[p[1]], ops[p[2]]
                ));
            }
            let r = ev.eval(&prog);
            let res = (|| {
                if !r.is_ok() {
                    return Err(r.err_string().unwrap_or_default());
                }
                let mut vals = vec![];
                for pi in 0..6 {
                    let v = ev
                        .ctx()
                        .verif_raw_global(&format!("t{pi}"))
                        .ok_or("no raw value")?;
                    let (b, _) = defs.value_in_base(&v).ok_or("not a known quantity")?;
                    vals.push(b);
                }
                Ok(vals)
            })();
            ev.reset();
            res
        },
    );
    for (i, r) in t_out.into_iter().enumerate() {
        let (t, m) = &t_cases[i];
        rep.states += 1;
        rep.evaluations += 1;
        rep.transitions += 6;
        match r {
            Err(e) => {
                if e.starts_with("PANIC") {
                    rep.violation(
                        format!("input:sum3 {t:?} {m:?}"),
                        format!("three-operand sum of {t:?} x {m:?} panicked: {e}"),
                        json!({"units": t, "mags": m}),
                    );
                } else {
                    rep.machinery_error(format!("triple {t:?} {m:?}: {e}"));
                }
            }
            Ok(vals) => {
                rep.validated += 1;
                let parts: f64 = (0..3)
                    .map(|k| {
                        (m[k].parse::<f64>().unwrap() * defs.units[&t[k]].base_factor).abs()
                    })
                    .sum();
                let lo = vals.iter().cloned().fold(f64::INFINITY, f64::min);
                let hi = vals.iter().cloned().fold(f64::NEG_INFINITY, f64::max);
                rep.nontrivial_case(&format!("{t:?}{m:?}"));
                if !(hi - lo <= 1e-9 * parts) {
                    rep.violation(
                        format!("input:sum3 {t:?} {m:?}"),
                        format!(
                            "three-operand sums of {m:?} x {t:?} differ by order: base-unit values {vals:?}"
                        ),
                        json!({"units": t, "mags": m, "values_in_base_units": vals}),
                    );
                }
            }
        }
    }
    rep.set("unit_pairs", json!(pairs.len()));
    rep.set("magnitude_pairs", json!(mag_pairs.len()));
    rep.set("unit_triples", json!(triples.len()));
    rep.rule = "every ordered pair of same-dimension prelude units x magnitude pairs (quick: diagonal + 7 cross pairs; thorough: M8xM8 + the extreme magnitudes 5e-324, 1e-310, f64::MAX, 2^53+1 with themselves and with 1) + prefixed operands + every ordered pair of prefixes on metre, second (metric) and bit, byte (metric and binary); a+b, b+a, a-b, -(b-a) evaluated by the interpreter, raw values read through the hook and displayed text through print; plus all 6 orders of three-operand sums over per-dimension unit subsets; non-trivial = cases where the display clause applies (unit sizes differ, not both zero) and all triples".into();
    rep.assumptions = vec![
        "reference base factors come from UnitDefs (direct definitions, independent recursion)".into(),
        "physical equality tolerance 1e-9 relative to |a|+|b| in base units".into(),
        "`-0` and `0` are the same displayed value".into(),
    ];
}

pub fn replay(case: &J) -> i32 {
    let base = all_ctx();
    let defs = UnitDefs::build(&base).unwrap();
    let mut ev = Evaluator::new(base);
    if let (Some(a), Some(b)) = (case["a"].as_str(), case["b"].as_str()) {
        println!("{}", program(a, b));
        match eval_case(&mut ev, a, b) {
            Ok(o) => {
                println!("shown: {:?}\nraw: {:?}", o.shown, o.raw);
                match judge(&defs, &o) {
                    Ok(_) => {
                        println!("no violation on this tree");
                        0
                    }
                    Err(e) => {
                        println!("VIOLATION reproduced: {e}");
                        1
                    }
                }
            }
            Err(e) => {
                println!("evaluation failed: {e}");
                1
            }
        }
    } else {
        println!("triple case: {case}");
        2
    }
}
