//! C17 — standard-library modules compose in any order.
//!
//! State = set of requested modules, action = `use M`; the subset lattice is explored to size k
//! through *every* order on real sessions with the builtin importer.  Invariants: every import
//! succeeds (I1); re-importing an imported module changes nothing (I2); the observation of a set
//! does not depend on the order it was reached by (confluence).

use crate::common::*;
use crate::obs::*;
use numbat::Context;
use serde_json::{Value as J, json};
use std::collections::BTreeMap;

pub fn module_names() -> Vec<String> {
    let ctx = fresh_builtin_ctx();
    let mut v: Vec<String> = ctx.list_modules().map(|m| m.to_string()).collect();
    v.sort();
    v.dedup();
    v
}

fn import(ctx: &mut Context, m: &str) -> RunResult {
    run(ctx, &format!("use {m}"))
}

fn obs_of(ctx: &Context) -> String {
    static_obs(ctx)
}

#[derive(Default)]
struct Out {
    violations: Vec<(String, String, J)>,
    states: u64,
    transitions: u64,
    reimports: u64,
    machinery: Vec<String>,
}

fn viol(out: &mut Out, order: &[&str], kind: &str, what: String) {
    out.violations.push((
        format!("order:{}|{}", order.join(","), kind),
        format!("import order {:?}: {}", order, what),
        json!({"order": order, "kind": kind}),
    ));
}

pub fn check(rep: &mut Report) {
    let mods = module_names();
    let n = mods.len();
    rep.set("modules", json!(n));
    // determinism self-check: one order twice
    {
        let mut a = fresh_builtin_ctx();
        let mut b = fresh_builtin_ctx();
        for m in ["units::si", "math::constants", "extra::algebra"] {
            let _ = import(&mut a, m);
            let _ = import(&mut b, m);
        }
        let (oa, ob) = (obs_of(&a), obs_of(&b));
        if oa != ob {
            rep.machinery_error(format!(
                "the same import order gave two different observations: {}",
                first_diff(&oa, &ob)
            ));
            return;
        }
    }

    // level 1
    let level1: Vec<(Option<Context>, String, Out)> = par_map(
        n,
        || (),
        |_, i| {
            let mut out = Out::default();
            let mut ctx = fresh_builtin_ctx();
            let r = import(&mut ctx, &mods[i]);
            out.transitions += 1;
            out.states += 1;
            if !r.is_ok() {
                viol(
                    &mut out,
                    &[&mods[i]],
                    "import",
                    format!("`use {}` fails in a fresh session: {}", mods[i], r.err_string().unwrap_or_default()),
                );
                return (None, String::new(), out);
            }
            let o = obs_of(&ctx);
            // I2: re-import of every module that is now marked imported
            let imported: Vec<String> = ctx
                .resolver()
                .imported_modules
                .iter()
                .map(|m| m.to_string())
                .collect();
            for m in &imported {
                let mut c = ctx.clone();
                let r2 = import(&mut c, m);
                out.reimports += 1;
                out.transitions += 1;
                if !r2.is_ok() {
                    viol(&mut out, &[&mods[i], m], "reimport", format!("re-importing {m} fails: {}", r2.err_string().unwrap_or_default()));
                    continue;
                }
                let o2 = obs_of(&c);
                if o2 != o {
                    viol(&mut out, &[&mods[i], m], "reimport", format!("re-importing {m} changed the session: {}", first_diff(&o, &o2)));
                }
            }
            (Some(ctx), o, out)
        },
    );
    let mut outs: Vec<Out> = vec![];
    let mut l1ctx: Vec<Option<Context>> = vec![];
    let mut l1obs: Vec<String> = vec![];
    for (c, o, out) in level1 {
        l1ctx.push(c);
        l1obs.push(o);
        outs.push(out);
    }

    // level 2 (+3): every ordered pair (and triple)
    let k = rep.tier.pick(2, 3);
    let pairs: Vec<(usize, usize)> = (0..n)
        .flat_map(|a| (0..n).filter(move |b| *b != a).map(move |b| (a, b)))
        .collect();
    let results: Vec<(Vec<(Vec<usize>, u64, String)>, Out)> = par_map(
        pairs.len(),
        || (),
        |_, pi| {
            let (a, b) = pairs[pi];
            let mut out = Out::default();
            let mut keyed = vec![];
            let Some(base) = &l1ctx[a] else {
                return (keyed, out);
            };
            let mut ctx = base.clone();
            let r = import(&mut ctx, &mods[b]);
            out.transitions += 1;
            if !r.is_ok() {
                viol(&mut out, &[&mods[a], &mods[b]], "import", format!("`use {}` fails after `use {}`: {}", mods[b], mods[a], r.err_string().unwrap_or_default()));
                return (keyed, out);
            }
            let o = obs_of(&ctx);
            // I2 again in the pair state: re-import of a and of b
            for m in [&mods[a], &mods[b]] {
                let mut c = ctx.clone();
                let r2 = import(&mut c, m);
                out.reimports += 1;
                out.transitions += 1;
                if !r2.is_ok() || obs_of(&c) != o {
                    viol(&mut out, &[&mods[a], &mods[b], m], "reimport", format!("re-importing {m} changed the session or failed"));
                }
            }
            let mut set = vec![a, b];
            set.sort();
            keyed.push((set, hash64(&o), if a < b { o.clone() } else { String::new() }));
            if k >= 3 {
                for c3 in 0..n {
                    if c3 == a || c3 == b {
                        continue;
                    }
                    let mut c = ctx.clone();
                    let r3 = import(&mut c, &mods[c3]);
                    out.transitions += 1;
                    if !r3.is_ok() {
                        viol(&mut out, &[&mods[a], &mods[b], &mods[c3]], "import", format!("`use {}` fails: {}", mods[c3], r3.err_string().unwrap_or_default()));
                        continue;
                    }
                    let o3 = obs_of(&c);
                    let mut set = vec![a, b, c3];
                    set.sort();
                    keyed.push((set, hash64(&o3), String::new()));
                }
            }
            (keyed, out)
        },
    );
    // confluence: all orders of one set must agree
    let mut by_set: BTreeMap<Vec<usize>, (u64, Vec<usize>)> = BTreeMap::new();
    let mut sets_reached = 0u64;
    let mut orders = 0u64;
    let mut conf_viol: Vec<(Vec<usize>, Vec<usize>, Vec<usize>)> = vec![];
    for (pi, (keyed, out)) in results.into_iter().enumerate() {
        outs.push(out);
        let (a, b) = pairs[pi];
        for (set, h, _o) in keyed {
            orders += 1;
            // reconstruct the order of this entry
            let order: Vec<usize> = if set.len() == 2 {
                vec![a, b]
            } else {
                let c3 = *set.iter().find(|x| **x != a && **x != b).unwrap();
                vec![a, b, c3]
            };
            match by_set.get(&set) {
                None => {
                    by_set.insert(set, (h, order));
                    sets_reached += 1;
                }
                Some((h0, order0)) => {
                    if *h0 != h {
                        conf_viol.push((set.clone(), order0.clone(), order));
                    }
                }
            }
        }
    }
    let mut out = Out::default();
    for (_set, o1, o2) in conf_viol.iter().take(200) {
        // recompute both observations to describe the difference
        let build = |order: &Vec<usize>| {
            let mut c = fresh_builtin_ctx();
            for m in order {
                let _ = import(&mut c, &mods[*m]);
            }
            obs_of(&c)
        };
        let (x, y) = (build(o1), build(o2));
        let names1: Vec<&str> = o1.iter().map(|i| mods[*i].as_str()).collect();
        let names2: Vec<&str> = o2.iter().map(|i| mods[*i].as_str()).collect();
        out.violations.push((
            format!("orders:{}|{}", names1.join(","), names2.join(",")),
            format!(
                "the same modules imported in order {:?} and in order {:?} give different sessions: {}",
                names1,
                names2,
                first_diff(&x, &y)
            ),
            json!({"order": names1, "other_order": names2, "kind": "confluence"}),
        ));
    }
    outs.push(out);
    // single-module confluence with the pair level: {A} then B vs obs(B) then A handled above.

    // two fixed long orders: every module in list order and in reverse order
    {
        let build = |order: &Vec<&String>| -> (Context, Option<String>) {
            let mut c = fresh_builtin_ctx();
            for m in order {
                let r = import(&mut c, m);
                if !r.is_ok() {
                    return (c, Some(format!("`use {m}` fails: {}", r.err_string().unwrap_or_default())));
                }
            }
            (c, None)
        };
        let fwd: Vec<&String> = mods.iter().collect();
        let rev: Vec<&String> = mods.iter().rev().collect();
        let (cf, ef) = build(&fwd);
        let (cr, er) = build(&rev);
        let mut out = Out::default();
        out.transitions += 2 * n as u64;
        out.states += 2;
        for (e, name) in [(ef, "alphabetical"), (er, "reverse alphabetical")] {
            if let Some(e) = e {
                out.violations.push((format!("order:all-{name}|import"), format!("importing all modules in {name} order: {e}"), json!({"kind": "long", "order": name})));
            }
        }
        let (of, or) = (obs_of(&cf), obs_of(&cr));
        if of != or {
            out.violations.push((
                "orders:all-alphabetical|all-reverse".into(),
                format!("all modules imported alphabetically vs in reverse give different sessions: {}", first_diff(&of, &or)),
                json!({"kind": "long"}),
            ));
        }
        outs.push(out);
    }

    let mut transitions = 0;
    let mut reimports = 0;
    for o in outs {
        transitions += o.transitions;
        reimports += o.reimports;
        for (k, w, j) in o.violations {
            rep.violation(k, w, j);
        }
        for m in o.machinery {
            rep.machinery_error(m);
        }
    }
    for (_, (h, _)) in &by_set {
        rep.outcomes.insert(*h);
    }
    rep.states = n as u64 + sets_reached + 3;
    rep.transitions = transitions;
    rep.validated = orders + reimports;
    rep.evaluations = transitions;
    rep.nontrivial_extra = sets_reached;
    rep.set("max_set_size", json!(k));
    rep.set("ordered_sequences_explored", json!(orders));
    rep.set("module_sets_reached", json!(sets_reached));
    rep.set("reimports_checked", json!(reimports));
    rep.sample(json!({"order": [mods[0], mods[1]], "observation_hash": format!("{:016x}", hash64(&l1obs[0]))}));
    rep.sample(json!({"modules": mods}));
    rep.rule = "subset lattice of the standard-library modules explored to size k through every order (k=2: all ordered pairs, k=3: all ordered triples) on real sessions; states = module sets reached, transitions = `use` executions; non-trivial = distinct sets of >= 2 modules reached by more than one order and compared".into();
    rep.assumptions = vec![
        "a session is observed through names, raw constant values (bit-exact), function signatures, units, dimensions and the imported-module set".into(),
        "currency units use the built-in test exchange rates (no network)".into(),
    ];
}

pub fn replay(case: &J) -> i32 {
    let order: Vec<String> = case["order"]
        .as_array()
        .map(|a| a.iter().filter_map(|x| x.as_str().map(|s| s.to_string())).collect())
        .unwrap_or_default();
    let mut c = fresh_builtin_ctx();
    for m in &order {
        let r = import(&mut c, m);
        println!("use {m}: {}", r.err_string().unwrap_or_else(|| "ok".into()));
        if !r.is_ok() {
            println!("VIOLATION reproduced");
            return 1;
        }
    }
    if let Some(other) = case["other_order"].as_array() {
        let mut d = fresh_builtin_ctx();
        for m in other {
            let _ = import(&mut d, m.as_str().unwrap_or(""));
        }
        let (x, y) = (obs_of(&c), obs_of(&d));
        if x != y {
            println!("VIOLATION reproduced: {}", first_diff(&x, &y));
            return 1;
        }
    }
    println!("no violation on this tree");
    0
}
